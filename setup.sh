#!/bin/bash
# Offline build of the verification harness and of the cgt-tool binary from /repo's current working tree.
set -euo pipefail
cd /verif/harness
export CARGO_NET_OFFLINE=true
export CARGO_TARGET_DIR=/verif/target   # never inherit a caller's target dir: the engine binary must be the one just built
cargo build --release --offline -p mc-core 2>&1 | tail -3
cargo build --release --offline -p mc-front 2>&1 | tail -3
cargo build --release --offline --manifest-path /repo/Cargo.toml -p cgt-cli --target-dir /verif/target/repo 2>&1 | tail -3
echo "setup ok"
