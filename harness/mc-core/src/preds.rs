//! Input predicates naming the classes of known (open) findings. Each is a pure function of the input.
use mcx::run::{Input, Predicate};
use serde_json::Value;
use std::collections::BTreeMap;

pub fn all() -> BTreeMap<String, Predicate> {
    let mut m: BTreeMap<String, Predicate> = BTreeMap::new();
    m.insert("never".into(), never as Predicate);
    m
}

fn never(_i: &Input, _c: &Value) -> bool {
    false
}
