//! Input predicates naming the classes of known (open) findings. Each is a pure function of the input
//! (and, where stated, of the explorer's context such as the variant compared) — never of the outcome.
use cgt_core::{Operation, Transaction};
use mcx::rat::Rat;
use mcx::run::{Input, Predicate};
use rust_decimal::Decimal;
use serde_json::Value;
use std::collections::BTreeMap;

pub fn all() -> BTreeMap<String, Predicate> {
    let mut m: BTreeMap<String, Predicate> = BTreeMap::new();
    m.insert("never".into(), never as Predicate);
    m.insert("residue_prone_split_ratio".into(), residue_prone_split_ratio as Predicate);
    m.insert("two_sell_lines_one_day".into(), two_sell_lines_one_day as Predicate);
    m.insert("extreme_magnitude".into(), extreme_magnitude as Predicate);
    m.insert("capital_return_per_share_exceeds_a_lot_unit_cost".into(), capret_exceeds_lot_unit_cost as Predicate);
    m.insert("two_buy_lots_one_day_after_sale_within_30_days".into(), two_buy_lots_after_sale as Predicate);
    m
}

fn never(_i: &Input, _c: &Value) -> bool {
    false
}

/// 1/ratio (or ratio itself) has no finite decimal expansion: numerator or denominator of the ratio in lowest
/// terms has a prime factor other than 2 and 5.
pub fn nonterminating(ratio: Decimal) -> bool {
    if ratio.is_zero() {
        return false;
    }
    let only_2_5 = |mut m: i128| {
        if m == 0 {
            return true;
        }
        m = m.abs();
        while m % 2 == 0 {
            m /= 2;
        }
        while m % 5 == 0 {
            m /= 5;
        }
        m == 1
    };
    // ratio = mantissa / 10^scale ; reciprocal terminates iff mantissa (in lowest terms vs 10^scale) is 2^a5^b
    let n = ratio.normalize();
    !only_2_5(n.mantissa())
}

/// The ledger contains a SPLIT/UNSPLIT whose reciprocal is not a finite decimal and that either
/// (a) is an UNSPLIT followed by a later SELL of the security, or
/// (b) lies between a SELL and a BUY of the security dated within the following 30 days.
/// In both positions rust_decimal's 28-digit quotient leaves a 1e-27 residue in a share count.
fn residue_prone_split_ratio(i: &Input, _c: &Value) -> bool {
    let Input::Ledger(txs) = i else { return false };
    ledger_residue_prone(txs)
}

pub fn ledger_residue_prone(txs: &[Transaction]) -> bool {
    // exact evaluation must need a share count without finite decimal expansion (a position such as 28/3, a unit
    // factor 1/3 between a sale and its 30-day purchase, a purchase of 1 share expressed in pre-split thirds);
    // a ledger whose share counts are all finite decimals (BUY 300; UNSPLIT 3; SELL 100) is NOT in the class
    let Ok(rtx) = mcx::refmodel::to_rtx(txs, &mcx::refmodel::no_fx) else { return false };
    if !mcx::refmodel::evaluate(&rtx).non_decimal_share_count {
        return false;
    }
    for e in txs {
        let (ratio, is_unsplit) = match &e.operation {
            Operation::Split { ratio } => (*ratio, false),
            Operation::Unsplit { ratio } => (*ratio, true),
            _ => continue,
        };
        if !nonterminating(ratio) {
            continue;
        }
        let sell_after = txs.iter().any(|t| t.ticker == e.ticker && t.date > e.date && matches!(t.operation, Operation::Sell { .. }));
        if is_unsplit && sell_after {
            return true;
        }
        for s in txs.iter().filter(|t| t.ticker == e.ticker && matches!(t.operation, Operation::Sell { .. }) && t.date <= e.date) {
            if txs.iter().any(|b| b.ticker == e.ticker && matches!(b.operation, Operation::Buy { .. }) && b.date > e.date && (b.date - s.date).num_days() <= 30) {
                return true;
            }
        }
    }
    false
}

#[allow(dead_code)]
pub fn rat_of(d: Decimal) -> Rat {
    Rat::from_dec(d)
}

fn ledgers_of(i: &Input, c: &Value) -> Vec<Vec<Transaction>> {
    let mut v = vec![];
    if let Input::Ledger(t) = i {
        v.push(t.clone());
    }
    if let Some(s) = c.get("variant_ledger").and_then(|x| x.as_str()) {
        if let Ok(t) = mcx::refparse::parse(s) {
            v.push(t);
        }
    }
    v
}

/// Some (date, security) carries two or more SELL lines (in the base ledger or in the compared variant):
/// sells that are not adjacent after the date sort are matched separately.
fn two_sell_lines_one_day(i: &Input, c: &Value) -> bool {
    ledgers_of(i, c).iter().any(|l| {
        l.iter().enumerate().any(|(a, x)| matches!(x.operation, Operation::Sell { .. }) && l.iter().skip(a + 1).any(|y| matches!(y.operation, Operation::Sell { .. }) && y.date == x.date && y.ticker == x.ticker))
    })
}

/// Some (date, security) carries two or more BUY lines at different unit cost AND the security was sold in the
/// preceding 30 days (so a 30-day claim reaches that day and takes the lot that happens to come first).
fn two_buy_lots_after_sale(i: &Input, c: &Value) -> bool {
    let unit = |t: &Transaction| match &t.operation {
        Operation::Buy { amount, price, fees } if !amount.is_zero() => Some(Rat::from_dec(price.amount) + Rat::from_dec(fees.amount) / Rat::from_dec(*amount)),
        _ => None,
    };
    ledgers_of(i, c).iter().any(|l| {
        l.iter().enumerate().any(|(a, x)| {
            let Some(ux) = unit(x) else { return false };
            l.iter().skip(a + 1).any(|y| y.date == x.date && y.ticker == x.ticker && unit(y).map(|uy| uy != ux).unwrap_or(false))
                && l.iter().any(|s| matches!(s.operation, Operation::Sell { .. }) && s.ticker == x.ticker && s.date < x.date && (x.date - s.date).num_days() <= 30)
        })
    })
}

/// The input (ledger or DSL text) contains a numeric literal >= 1e13 or a non-zero one <= 1e-13. Purely syntactic, so a panic on ordinary magnitudes can never hide in it.
fn extreme_magnitude(i: &Input, _c: &Value) -> bool {
    let big = Decimal::from_i128_with_scale(10_000_000_000_000, 0);
    let small = Decimal::from_i128_with_scale(1, 13);
    let extreme = |d: &Decimal| (*d >= big) || (!d.is_zero() && d.abs() <= small);
    match i {
        Input::Ledger(txs) => txs.iter().any(|t| match &t.operation {
            Operation::Buy { amount, price, fees } | Operation::Sell { amount, price, fees } => extreme(amount) || extreme(&price.amount) || extreme(&fees.amount),
            Operation::Dividend { total_value, tax_paid } => extreme(&total_value.amount) || extreme(&tax_paid.amount),
            Operation::Accumulation { amount, total_value, tax_paid } => extreme(amount) || extreme(&total_value.amount) || extreme(&tax_paid.amount),
            Operation::CapReturn { amount, total_value, fees } => extreme(amount) || extreme(&total_value.amount) || extreme(&fees.amount),
            Operation::Split { ratio } | Operation::Unsplit { ratio } => extreme(ratio),
        }),
        Input::Text(s) => {
            // any maximal run of [0-9.] that parses as a decimal in the class; or "RATIO 0"
            let mut cur = String::new();
            let mut hit = false;
            for ch in s.chars().chain(std::iter::once(' ')) {
                if ch.is_ascii_digit() || ch == '.' {
                    cur.push(ch);
                } else {
                    if !cur.is_empty() {
                        if let Ok(d) = cur.trim_matches('.').parse::<Decimal>() {
                            if extreme(&d) {
                                hit = true;
                            }
                        } else if cur.chars().filter(|c| c.is_ascii_digit()).count() > 28 {
                            hit = true;
                        }
                        cur.clear();
                    }
                }
            }
            hit
        }
        Input::Json(_) => false,
    }
}

/// Some CAPRETURN's net amount per share held (R's position at the event) exceeds the unit cost of a BUY line of that
/// security dated before the event: the return is apportioned over lots by share count, so such a lot's cost goes
/// negative even though the holding as a whole can absorb the return.
fn capret_exceeds_lot_unit_cost(i: &Input, _c: &Value) -> bool {
    let Input::Ledger(txs) = i else { return false };
    let Ok(rtx) = mcx::refmodel::to_rtx(txs, &mcx::refmodel::no_fx) else { return false };
    let r = mcx::refmodel::evaluate(&rtx);
    for e in txs {
        let Operation::CapReturn { total_value, fees, .. } = &e.operation else { continue };
        let net = Rat::from_dec(total_value.amount) - Rat::from_dec(fees.amount);
        let pos = r.pos_start(&e.ticker, e.date);
        if !pos.is_pos() {
            continue;
        }
        let per_share = &net / &pos;
        for b in txs.iter().filter(|b| b.ticker == e.ticker && b.date < e.date) {
            if let Operation::Buy { amount, price, fees } = &b.operation {
                if amount.is_zero() {
                    continue;
                }
                let unit = Rat::from_dec(price.amount) + Rat::from_dec(fees.amount) / Rat::from_dec(*amount);
                if unit < per_share {
                    return true;
                }
            }
        }
    }
    false
}
