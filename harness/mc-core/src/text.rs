//! Text-level engines (C09 case spellings; C13/C14 live here too).
use crate::ledger::Env;
use cgt_core::Transaction;
use cgt_core::parser::parse_file;
use mcx::observe::Outcome;
use mcx::run::{Acc, Ctx, Input, Violation};
use mcx::view::{self, CmpOpts, Level};
use serde_json::json;

fn spellings(t: &str) -> Vec<String> {
    let letters: Vec<usize> = t.char_indices().filter(|(_, c)| c.is_ascii_alphabetic()).map(|(i, _)| i).collect();
    let mut out = vec![];
    for mask in 0..(1u32 << letters.len()) {
        let mut s: Vec<char> = t.to_ascii_lowercase().chars().collect();
        for (k, &i) in letters.iter().enumerate() {
            if mask & (1 << k) != 0 {
                s[i] = s[i].to_ascii_uppercase();
            }
        }
        out.push(s.into_iter().collect());
    }
    out
}

/// Every upper/lower-case spelling of a ticker, in DSL and JSON, denotes the same security.
pub fn c09_case_spellings(ctx: &mut Ctx, env: &Env, acc: &mut Acc) {
    let sp = spellings("ab1c"); // 8 spellings
    let lines = |a: &str, b: &str, c: &str| format!("2023-01-10 BUY {a} 10 @ 10 FEES 1\n2023-02-01 SELL {b} 4 @ 12\n2023-02-10 BUY {c} 3 @ 11\n2023-03-01 BUY ZZ 1 @ 1\n");
    let json_in = |a: &str, b: &str, c: &str| {
        format!(
            r#"[{{"date":"2023-01-10","ticker":"{a}","action":"BUY","amount":"10","price":"10","fees":"1"}},{{"date":"2023-02-01","ticker":"{b}","action":"SELL","amount":"4","price":"12"}},{{"date":"2023-02-10","ticker":"{c}","action":"BUY","amount":"3","price":"11"}},{{"date":"2023-03-01","ticker":"ZZ","action":"BUY","amount":"1","price":"1"}}]"#
        )
    };
    let reference = parse_file(&lines("AB1C", "AB1C", "AB1C")).ok();
    let ref_report = reference.as_ref().and_then(|t| match env.calc(t) {
        Outcome::Report(r) => Some(view::view(&r)),
        _ => None,
    });
    let check = |acc: &mut Acc, kind: &str, text: String, parsed: Result<Vec<Transaction>, String>| {
        acc.states += 1;
        acc.validated += 1;
        acc.bump("case-spellings-compared");
        let mut problems = vec![];
        match parsed {
            Err(e) => problems.push(format!("mixed-case ticker rejected: {e}")),
            Ok(txs) => {
                if Some(&txs) != reference.as_ref() {
                    problems.push(format!("parsed transactions differ from the upper-case spelling: tickers {:?}", txs.iter().map(|t| t.ticker.clone()).collect::<Vec<_>>()));
                }
                match (env.calc(&txs), &ref_report) {
                    (Outcome::Report(r), Some(rr)) => {
                        for d in view::diff_reports(&view::view(&r), rr, Level::L3, &CmpOpts::default()) {
                            problems.push(format!("report differs: {}", d.detail));
                        }
                    }
                    (Outcome::Report(_), None) => {}
                    (Outcome::Err { msg, .. }, _) => problems.push(format!("mixed-case ledger refused: {msg}")),
                    (Outcome::Panic(m), _) => problems.push(format!("panic: {m}")),
                }
            }
        }
        for p in problems {
            acc.violation(&ctx.findings, "C09", Violation { clause: "ticker-case".into(), input: Input::Text(text.clone()), detail: p, context: json!({"format": kind}) });
        }
    };
    for a in &sp {
        for b in &sp {
            for c in &sp {
                let t = lines(a, b, c);
                let p = parse_file(&t).map_err(|e| e.to_string());
                check(acc, "dsl", t, p);
                let j = json_in(a, b, c);
                let p = serde_json::from_str::<Vec<Transaction>>(&j).map_err(|e| e.to_string());
                check(acc, "json", j, p);
            }
        }
    }
    // JSON admits tickers the DSL grammar cannot spell: letters outside ASCII have cases too
    for (upper, variants) in [("ÖBB", vec!["ÖBB", "öbb", "Öbb", "öBB"]), ("СБЕР", vec!["СБЕР", "сбер", "Сбер", "сбЕР"])] {
        let ref_txs = serde_json::from_str::<Vec<Transaction>>(&json_in(upper, upper, upper)).ok();
        let ref_rep = ref_txs.as_ref().and_then(|t| match env.calc(t) {
            Outcome::Report(r) => Some(view::view(&r)),
            _ => None,
        });
        for a in &variants {
            for b in &variants {
                for c in &variants {
                    let j = json_in(a, b, c);
                    acc.states += 1;
                    acc.validated += 1;
                    acc.bump("case-spellings-compared");
                    acc.bump("case-spellings:non-ascii-json");
                    let mut problems = vec![];
                    match serde_json::from_str::<Vec<Transaction>>(&j) {
                        Err(e) => problems.push(format!("mixed-case ticker rejected: {e}")),
                        Ok(txs) => {
                            if Some(&txs) != ref_txs.as_ref() {
                                problems.push(format!("parsed transactions differ from the upper-case spelling: tickers {:?}", txs.iter().map(|t| t.ticker.clone()).collect::<Vec<_>>()));
                            }
                            match (env.calc(&txs), &ref_rep) {
                                (Outcome::Report(r), Some(rr)) => {
                                    for d in view::diff_reports(&view::view(&r), rr, Level::L3, &CmpOpts::default()) {
                                        problems.push(format!("report differs: {}", d.detail));
                                    }
                                }
                                (Outcome::Report(_), None) => {}
                                (Outcome::Err { msg, .. }, _) => problems.push(format!("mixed-case ledger refused: {msg}")),
                                (Outcome::Panic(m), _) => problems.push(format!("panic: {m}")),
                            }
                        }
                    }
                    for p in problems {
                        acc.violation(&ctx.findings, "C09", Violation { clause: "ticker-case".into(), input: Input::Text(j.clone()), detail: p, context: json!({"format": "json", "ticker": upper}) });
                    }
                }
            }
        }
    }
    ctx.alphabets.push(json!({"name": "case-spellings", "description": "ticker AB1C in all 8 case spellings on each of 3 lines (512 combinations), DSL text and JSON input; tickers ÖBB and СБЕР in 4 spellings on each of 3 lines, JSON input", "states": 1152}));
}
