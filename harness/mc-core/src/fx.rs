//! C08: FX at the HMRC rate of the transaction's own month, or the run fails.
use crate::ledger::Env;
use crate::preds;
use crate::roundtrip::all_currencies;
use cgt_core::{Currency, CurrencyAmount, Operation, Transaction};
use cgt_money::{FxCache, RateFile, load_cache_with_overrides};
use chrono::{Datelike, NaiveDate};
use mcx::alpha::{self, Alphabet, Rules, dec, dsl_text};
use mcx::fxref::RateTable;
use mcx::observe::{ErrKind, Outcome, run_calc};
use mcx::proc::{Scratch, run_tool};
use mcx::rat::Rat;
use mcx::run::{Acc, Ctx, Input, Tier, Violation, machinery_failure};
use mcx::view::{self, CmpOpts, Level};
use rayon::prelude::*;
use rust_decimal::Decimal;
use serde_json::{Value, json};
use std::collections::BTreeMap;
use std::time::{Duration, UNIX_EPOCH};

fn months_of(rates: &RateTable) -> Vec<(i32, u32)> {
    let mut m: Vec<(i32, u32)> = rates.keys().map(|k| (k.1, k.2)).collect();
    m.sort();
    m.dedup();
    m
}

fn next_month(y: i32, m: u32) -> (i32, u32) {
    if m == 12 { (y + 1, 1) } else { (y, m + 1) }
}

fn v(clause: &str, txs: &[Transaction], detail: String, cx: Value) -> Violation {
    Violation { clause: clause.into(), input: Input::Ledger(txs.to_vec()), detail, context: cx }
}

/// (a) every (month, ISO currency): one BUY in that currency and month.
fn sweep_table(ctx: &Ctx, env: &Env, acc: &mut Acc) {
    let curs = all_currencies();
    let mut months = months_of(&env.rates);
    let last = *months.last().unwrap_or(&(2025, 1));
    let mut nm = last;
    for _ in 0..3 {
        nm = next_month(nm.0, nm.1);
        months.push(nm);
    }
    months.push((2014, 12));
    months.push((2040, 6));
    let jobs: Vec<((i32, u32), Currency)> = months.iter().flat_map(|m| curs.iter().map(move |c| (*m, *c))).collect();
    let part = jobs
        .par_iter()
        .fold(Acc::new, |mut acc, ((y, m), cur)| {
            if *cur == Currency::GBP {
                return acc;
            }
            let d = alpha::date(*y, *m, 15);
            let txs = vec![Transaction { date: d, ticker: "X".into(), operation: Operation::Buy { amount: dec("10"), price: CurrencyAmount::new(dec("100"), *cur), fees: CurrencyAmount::new(dec("7"), Currency::GBP) } }];
            acc.states += 1;
            acc.validated += 1;
            let out = run_calc(&txs, None, Some(&env.fx), &env.cfg);
            let rate = env.rates.get(&(cur.code().to_string(), *y, *m));
            let cx = json!({"profile": "table-sweep", "currency": cur.code(), "month": format!("{y}-{m:02}")});
            match (rate, out) {
                (Some(r), Outcome::Report(rep)) => {
                    acc.bump("table:converted");
                    let want = Rat::int(1000) / Rat::from_dec(*r) + Rat::int(7);
                    let got = rep.holdings.iter().find(|h| h.ticker == "X").map(|h| Rat::from_dec(h.total_cost)).unwrap_or_default();
                    // relative tolerance for very weak currencies is unnecessary: 1000/rate <= 1e7
                    if !got.close(&want) {
                        acc.violation(&ctx.findings, "C08", v("wrong-rate", &txs, format!("cost {} but 10 x 100 / {} + 7 = {}", got, r, want), cx));
                    }
                }
                (Some(_), Outcome::Err { msg, .. }) => acc.violation(&ctx.findings, "C08", v("available-rate-refused", &txs, msg, cx)),
                (None, Outcome::Err { msg, kind }) => {
                    acc.bump("table:missing-refused");
                    if kind != ErrKind::MissingFx || !msg.contains(cur.code()) || !msg.contains(&format!("{y}-{m:02}")) {
                        acc.violation(&ctx.findings, "C08", v("missing-rate-error", &txs, format!("the error must name {} and {y}-{m:02}: {msg}", cur.code()), cx));
                    }
                }
                (None, Outcome::Report(rep)) => {
                    let got = rep.holdings.iter().find(|h| h.ticker == "X").map(|h| h.total_cost.to_string());
                    acc.violation(&ctx.findings, "C08", v("missing-rate-accepted", &txs, format!("no HMRC rate for {} in {y}-{m:02}, yet a report is produced (cost {got:?})", cur.code()), cx));
                }
                (_, Outcome::Panic(p)) => acc.violation(&ctx.findings, "C08", v("panic", &txs, p, cx)),
            }
            acc
        })
        .reduce(Acc::new, Acc::merge);
    eprintln!("  [C08] table sweep: {} (month, currency) cells", part.states);
    let merged = Acc::merge(std::mem::take(acc), part);
    *acc = merged;
    // every day of 2019-2025 (first and last days of months, 29 February, year ends) in USD and EUR: the rate of the
    // transaction's own month, never a neighbour's
    let mut days = vec![];
    let mut d = alpha::date(2019, 1, 1);
    while d <= alpha::date(2025, 12, 31) {
        days.push(d);
        d += chrono::Duration::days(1);
    }
    let part = days
        .par_iter()
        .fold(Acc::new, |mut acc, d| {
            use chrono::Datelike;
            for cur in [Currency::USD, Currency::EUR] {
                let Some(r) = env.rates.get(&(cur.code().to_string(), d.year(), d.month())) else { continue };
                let txs = vec![Transaction { date: *d, ticker: "X".into(), operation: Operation::Buy { amount: dec("10"), price: CurrencyAmount::new(dec("100"), cur), fees: CurrencyAmount::new(dec("7"), cur) } }];
                acc.states += 1;
                acc.validated += 1;
                acc.bump("table:day-sweep");
                let cx = json!({"profile": "day-sweep", "currency": cur.code(), "date": d.to_string()});
                match run_calc(&txs, None, Some(&env.fx), &env.cfg) {
                    Outcome::Report(rep) => {
                        let want = Rat::int(1007) / Rat::from_dec(*r);
                        let got = rep.holdings.iter().find(|h| h.ticker == "X").map(|h| Rat::from_dec(h.total_cost)).unwrap_or_default();
                        if !got.close(&want) {
                            acc.violation(&ctx.findings, "C08", v("wrong-rate", &txs, format!("cost {} but (10 x 100 + 7) / {} = {}", got, r, want), cx));
                        }
                    }
                    Outcome::Err { msg, .. } => acc.violation(&ctx.findings, "C08", v("available-rate-refused", &txs, msg, cx)),
                    Outcome::Panic(p) => acc.violation(&ctx.findings, "C08", v("panic", &txs, p, cx)),
                }
            }
            acc
        })
        .reduce(Acc::new, Acc::merge);
    let merged = Acc::merge(std::mem::take(acc), part);
    *acc = merged;
}

/// (b) ledgers mixing currencies and months vs their pre-converted GBP twins.
fn fx_alphabet(months: &[(i32, u32)], curs: &[&str], kinds_all: bool) -> Alphabet {
    let mut evs = vec![];
    let amt = |v: &str, c: &str| if c == "GBP" { v.to_string() } else { format!("{v} {c}") };
    for (k, (y, m)) in months.iter().enumerate() {
        let d = alpha::date(*y, *m, 10 + k as u32);
        for c1 in curs {
            for c2 in curs {
                evs.push(alpha::buy(d, "X", "10", &amt("100", c1), &amt("3", c2)));
                evs.push(alpha::sell(d, "X", "4", &amt("120", c1), &amt("2", c2)));
                if kinds_all {
                    evs.push(alpha::dividend(d, "X", &amt("30", c1), &amt("3", c2)));
                    evs.push(alpha::capret(alpha::date(*y, *m, 25), "X", "10", &amt("20", c1), &amt("1", c2)));
                }
            }
            if kinds_all {
                evs.push(alpha::accum(alpha::date(*y, *m, 26), "X", "10", &amt("15", c1), "0"));
            }
        }
    }
    let mut r = Rules::STRICT;
    r.one_buy = true;
    r.one_sell = true;
    Alphabet::new(if kinds_all { "fxpairs-all-kinds" } else { "fxpairs" }, evs, r)
}

fn to_gbp_twin(env: &Env, txs: &[Transaction]) -> Result<Vec<Transaction>, (String, i32, u32)> {
    let conv = |a: &CurrencyAmount, d: NaiveDate| -> Result<CurrencyAmount, (String, i32, u32)> {
        if a.currency == Currency::GBP {
            return Ok(a.clone());
        }
        match env.rates.get(&(a.currency.code().to_string(), d.year(), d.month())) {
            Some(r) => Ok(CurrencyAmount::new(a.amount / *r, Currency::GBP)),
            None => Err((a.currency.code().to_string(), d.year(), d.month())),
        }
    };
    let mut out = vec![];
    let mut missing = None;
    for t in txs {
        let d = t.date;
        let mut c = |a: &CurrencyAmount| match conv(a, d) {
            Ok(x) => x,
            Err(m) => {
                if missing.is_none() {
                    missing = Some(m);
                }
                a.clone()
            }
        };
        let op = match &t.operation {
            Operation::Buy { amount, price, fees } => Operation::Buy { amount: *amount, price: c(price), fees: c(fees) },
            Operation::Sell { amount, price, fees } => Operation::Sell { amount: *amount, price: c(price), fees: c(fees) },
            Operation::Dividend { total_value, tax_paid } => Operation::Dividend { total_value: c(total_value), tax_paid: c(tax_paid) },
            Operation::Accumulation { amount, total_value, tax_paid } => Operation::Accumulation { amount: *amount, total_value: c(total_value), tax_paid: c(tax_paid) },
            Operation::CapReturn { amount, total_value, fees } => Operation::CapReturn { amount: *amount, total_value: c(total_value), fees: c(fees) },
            other => other.clone(),
        };
        out.push(Transaction { date: d, ticker: t.ticker.clone(), operation: op });
    }
    match missing {
        Some(m) => Err(m),
        None => Ok(out),
    }
}

fn all_missing(env: &Env, txs: &[Transaction]) -> Vec<(String, String)> {
    let mut out = vec![];
    for t in txs {
        let mut chk = |a: &CurrencyAmount| {
            if a.currency != Currency::GBP && !env.rates.contains_key(&(a.currency.code().to_string(), t.date.year(), t.date.month())) {
                out.push((a.currency.code().to_string(), format!("{}-{:02}", t.date.year(), t.date.month())));
            }
        };
        match &t.operation {
            Operation::Buy { price, fees, .. } | Operation::Sell { price, fees, .. } => {
                chk(price);
                chk(fees);
            }
            Operation::Dividend { total_value, tax_paid } | Operation::Accumulation { total_value, tax_paid, .. } => {
                chk(total_value);
                chk(tax_paid);
            }
            Operation::CapReturn { total_value, fees, .. } => {
                chk(total_value);
                chk(fees);
            }
            _ => {}
        }
    }
    out
}

fn visit_pair(ctx: &Ctx, env: &Env, acc: &mut Acc, txs: &[Transaction], profile: &str) {
    acc.states += 1;
    if txs.is_empty() {
        return;
    }
    acc.validated += 1;
    let out = run_calc(txs, None, Some(&env.fx), &env.cfg);
    acc.sample(txs.len(), || json!({"profile": profile, "ledger": dsl_text(txs)}));
    let cx = json!({"profile": profile});
    let months: std::collections::BTreeSet<(i32, u32)> = txs.iter().map(|t| (t.date.year(), t.date.month())).collect();
    if months.len() >= 2 {
        acc.bump("shape:two-months-in-one-ledger");
    }
    match to_gbp_twin(env, txs) {
        Err(_) => {
            acc.bump("shape:needed-rate-missing");
            let miss = all_missing(env, txs);
            match out {
                Outcome::Err { msg, kind } => {
                    if kind != ErrKind::MissingFx || !miss.iter().any(|(c, m)| msg.contains(c.as_str()) && msg.contains(m.as_str())) {
                        // another legitimate obstacle may come first only if it is not FX related; in these alphabets there is none before conversion
                        acc.violation(&ctx.findings, "C08", v("missing-rate-error", txs, format!("missing rates {miss:?} but the error is: {msg}"), cx));
                    }
                }
                Outcome::Report(_) => acc.violation(&ctx.findings, "C08", v("missing-rate-accepted", txs, format!("needed rates {miss:?} are absent yet a report is produced"), cx)),
                Outcome::Panic(p) => acc.violation(&ctx.findings, "C08", v("panic", txs, p, cx)),
            }
        }
        Ok(twin) => {
            acc.bump("twin-compared");
            let tout = run_calc(&twin, None, None, &env.cfg);
            match (&out, &tout) {
                (Outcome::Report(a), Outcome::Report(b)) => {
                    acc.bump("twin-both-accepted");
                    let d = view::diff_reports(&view::view(a), &view::view(b), Level::L3, &CmpOpts { label_a: "foreign", label_b: "gbp-twin", ..Default::default() });
                    if let Some(x) = d.first() {
                        acc.violation(&ctx.findings, "C08", v("differs-from-gbp-twin", txs, x.detail.clone(), json!({"profile": profile, "twin": dsl_text(&twin)})));
                    }
                }
                (Outcome::Err { .. }, Outcome::Err { .. }) => {}
                (Outcome::Panic(p), _) | (_, Outcome::Panic(p)) => acc.violation(&ctx.findings, "C08", v("panic", txs, p.clone(), cx)),
                (a, b) => acc.violation(&ctx.findings, "C08", v("differs-from-gbp-twin", txs, format!("foreign ledger {} but its GBP twin {}", a.tag(), b.tag()), json!({"profile": profile, "twin": dsl_text(&twin)}))),
            }
        }
    }
}

// ------------------------------------------------------------------------------ (c) folder configurations
fn xml(period: &str, rates: &[(&str, &str)]) -> String {
    let mut s = format!("<?xml version=\"1.0\" encoding=\"UTF-8\"?>\n<exchangeRateMonthList Period=\"{period}\">\n");
    for (c, r) in rates {
        s += &format!("  <exchangeRate>\n    <countryName>N</countryName>\n    <countryCode>NN</countryCode>\n    <currencyName>C</currencyName>\n    <currencyCode>{c}</currencyCode>\n    <rateNew>{r}</rateNew>\n  </exchangeRate>\n");
    }
    s += "</exchangeRateMonthList>\n";
    s
}

struct MenuFile {
    name: &'static str,
    content: String,
    good: bool,
    /// (code, year, month) -> rate defined by this file when it is good
    defines: Vec<((&'static str, i32, u32), &'static str)>,
}

fn menu() -> Vec<MenuFile> {
    vec![
        MenuFile { name: "2024-03.xml", content: xml("01/Mar/2024 to 31/Mar/2024", &[("USD", "1.5"), ("EUR", "1.25")]), good: true, defines: vec![(("USD", 2024, 3), "1.5"), (("EUR", 2024, 3), "1.25")] },
        MenuFile { name: "monthly_xml_2023-11.xml", content: xml("01/Nov/2023 to 30/Nov/2023", &[("USD", "1.75")]), good: true, defines: vec![(("USD", 2023, 11), "1.75")] },
        MenuFile { name: "2031-07.xml", content: xml("01/Jul/2031 to 31/Jul/2031", &[("USD", "2"), ("JPY", "250.5")]), good: true, defines: vec![(("USD", 2031, 7), "2"), (("JPY", 2031, 7), "250.5")] },
        MenuFile { name: "2024-05.xml", content: xml("01/Apr/2024 to 30/Apr/2024", &[("USD", "9")]), good: false, defines: vec![] },
        MenuFile { name: "2024-06.xml", content: xml("01/Jun/2024 to 30/Jun/2024", &[("USD", "0")]), good: false, defines: vec![] },
        MenuFile { name: "2024-07.xml", content: xml("01/Jul/2024 to 31/Jul/2024", &[("USD", "-1.3")]), good: false, defines: vec![] },
        MenuFile { name: "2024-08.xml", content: "<exchangeRateMonthList Period=\"01/Aug/2024 to 31/Aug/2024\"><exchangeRate><currencyCode>USD".to_string(), good: false, defines: vec![] },
        MenuFile { name: "rates-2024-09.xml", content: xml("01/Sep/2024 to 30/Sep/2024", &[("USD", "1.1")]), good: false, defines: vec![] },
        // a second file for a month that another file also covers (the other documented file name), other currency
        MenuFile { name: "monthly_xml_2024-03.xml", content: xml("01/Mar/2024 to 31/Mar/2024", &[("JPY", "200.5")]), good: true, defines: vec![(("JPY", 2024, 3), "200.5")] },
    ]
}

fn cache_table(cache: &FxCache, curs: &[Currency]) -> BTreeMap<(String, i32, u32), Decimal> {
    let mut t = BTreeMap::new();
    for y in 2014..=2032 {
        for m in 1..=12u32 {
            for c in curs {
                if let Some(e) = cache.get(*c, y, m) {
                    t.insert((c.code().to_string(), y, m), e.rate_per_gbp);
                }
            }
        }
    }
    t
}

/// One rates file whose rows are every sequence of at most 3 rows over a 9-row menu (good, zero, negative and
/// unparsable rates of two currencies, one currency possibly listed several times): a file with any non-positive or
/// unparsable rate must be refused wherever that row stands; otherwise every currency listed once must be served at
/// its rate (which of several positive rows of one currency wins is not part of the statement).
fn row_sequences(ctx: &Ctx, acc: &mut Acc) {
    // (currency codes also in lower and mixed case: a row is a row of that currency however its code is spelled)
    let rows: [(&str, &str, bool); 9] = [("USD", "1.5", true), ("USD", "1.75", true), ("USD", "0", false), ("USD", "-1.3", false), ("USD", "abc", false), ("EUR", "1.25", true), ("EUR", "0.0", false), ("usd", "1.6", true), ("Eur", "-2", false)];
    let mut seqs: Vec<Vec<usize>> = vec![];
    for a in 0..rows.len() {
        seqs.push(vec![a]);
        for b in 0..rows.len() {
            seqs.push(vec![a, b]);
            for c in 0..rows.len() {
                seqs.push(vec![a, b, c]);
            }
        }
    }
    let part = seqs.par_iter().fold(Acc::new, |mut acc, s| {
        let chosen: Vec<(&str, &str)> = s.iter().map(|&i| (rows[i].0, rows[i].1)).collect();
        let all_good = s.iter().all(|&i| rows[i].2);
        let content = xml("01/Oct/2024 to 31/Oct/2024", &chosen);
        let rf = RateFile { name: std::path::PathBuf::from("/somewhere/2024-10.xml"), modified: Some(UNIX_EPOCH + Duration::from_secs(1000)), xml: content };
        acc.states += 1;
        acc.validated += 1;
        acc.bump("rates-file-row-sequences");
        let input = || Input::Json(json!({"folder_files": ["2024-10.xml"], "rows": chosen}));
        let cx = json!({"profile": "rates-file-row-sequences"});
        match std::panic::catch_unwind(std::panic::AssertUnwindSafe(|| load_cache_with_overrides(vec![rf]))) {
            Err(p) => acc.violation(&ctx.findings, "C08", Violation { clause: "panic".into(), input: input(), detail: mcx::observe::panic_msg(p), context: cx }),
            Ok(Err(e)) => {
                if all_good {
                    acc.violation(&ctx.findings, "C08", Violation { clause: "good-folder-refused".into(), input: input(), detail: e.to_string(), context: cx });
                } else {
                    acc.bump("rows:bad-row-refused");
                }
            }
            Ok(Ok(cache)) => {
                if !all_good {
                    acc.violation(&ctx.findings, "C08", Violation { clause: "bad-rates-file-accepted".into(), input: input(), detail: "a rates file with a non-positive or unparsable rate in one of its rows was accepted".into(), context: cx });
                    return acc;
                }
                for (code, cur) in [("USD", Currency::USD), ("EUR", Currency::EUR)] {
                    let listed: Vec<&str> = chosen.iter().filter(|(c, _)| c.eq_ignore_ascii_case(code)).map(|(_, r)| *r).collect();
                    let got = cache.get(cur, 2024, 10).map(|e| e.rate_per_gbp);
                    let ok = match listed.len() {
                        0 => true,
                        _ => got.map(|g| listed.iter().any(|r| dec(r) == g)).unwrap_or(false),
                    };
                    if !ok {
                        acc.violation(&ctx.findings, "C08", Violation { clause: "overlay-differs".into(), input: input(), detail: format!("{code} 2024-10: cache serves {got:?}, the file lists {listed:?}"), context: cx.clone() });
                    }
                }
            }
        }
        acc
    }).reduce(Acc::new, Acc::merge);
    let merged = Acc::merge(std::mem::take(acc), part);
    *acc = merged;
}

fn folder_configs(ctx: &Ctx, env: &Env, acc: &mut Acc) {
    let files = menu();
    let curs = all_currencies();
    let n = files.len();
    // bundled part of the reference: only codes the tool's currency type knows
    let known: std::collections::BTreeSet<String> = curs.iter().map(|c| c.code().to_string()).collect();
    let bundled_ref: BTreeMap<(String, i32, u32), Decimal> = env.rates.iter().filter(|(k, _)| known.contains(&k.0)).map(|(k, v)| (k.clone(), *v)).collect();
    let jobs: Vec<(u32, bool)> = (0..(1u32 << n)).flat_map(|m| [(m, false), (m, true)]).collect();
    let part = jobs
        .par_iter()
        .fold(Acc::new, |mut acc, (mask, reversed_mtime)| {
            let chosen: Vec<&MenuFile> = files.iter().enumerate().filter(|(i, _)| mask & (1 << i) != 0).map(|(_, f)| f).collect();
            if chosen.len() < 2 && *reversed_mtime {
                return acc;
            }
            let rfs: Vec<RateFile> = chosen
                .iter()
                .enumerate()
                .map(|(i, f)| {
                    let t = if *reversed_mtime { 1000 - i as u64 } else { 1000 + i as u64 };
                    RateFile { name: std::path::PathBuf::from(format!("/somewhere/{}", f.name)), modified: Some(UNIX_EPOCH + Duration::from_secs(t)), xml: f.content.clone() }
                })
                .collect();
            acc.states += 1;
            acc.validated += 1;
            acc.bump("folder-configurations");
            let res = std::panic::catch_unwind(std::panic::AssertUnwindSafe(|| load_cache_with_overrides(rfs)));
            let names: Vec<&str> = chosen.iter().map(|f| f.name).collect();
            let input = || Input::Json(json!({"folder_files": names, "mtime_order": if *reversed_mtime { "reversed" } else { "listed" }}));
            let cx = json!({"profile": "folder-configurations"});
            let any_bad = chosen.iter().any(|f| !f.good);
            match res {
                Err(p) => acc.violation(&ctx.findings, "C08", Violation { clause: "panic".into(), input: input(), detail: mcx::observe::panic_msg(p), context: cx }),
                Ok(Err(e)) => {
                    if !any_bad {
                        acc.violation(&ctx.findings, "C08", Violation { clause: "good-folder-refused".into(), input: input(), detail: e.to_string(), context: cx });
                    } else {
                        acc.bump("folder:bad-file-refused");
                    }
                }
                Ok(Ok(cache)) => {
                    if any_bad {
                        let bad: Vec<&str> = chosen.iter().filter(|f| !f.good).map(|f| f.name).collect();
                        acc.violation(&ctx.findings, "C08", Violation { clause: "bad-rates-file-accepted".into(), input: input(), detail: format!("files {bad:?} (period/name mismatch, non-positive rate, malformed XML or unparseable name) were accepted"), context: cx });
                        return acc;
                    }
                    acc.bump("folder:overlay-compared");
                    let mut want = bundled_ref.clone();
                    for f in &chosen {
                        for ((c, y, m), r) in &f.defines {
                            want.insert((c.to_string(), *y, *m), dec(r));
                        }
                    }
                    let got = cache_table(&cache, &curs);
                    if got != want {
                        let mut diffs = vec![];
                        for k in got.keys().chain(want.keys()) {
                            if got.get(k) != want.get(k) {
                                diffs.push(format!("{k:?}: cache {:?} expected {:?}", got.get(k), want.get(k)));
                                if diffs.len() > 5 {
                                    break;
                                }
                            }
                        }
                        acc.violation(&ctx.findings, "C08", Violation { clause: "overlay-differs".into(), input: input(), detail: format!("the cache differs from bundled-overlaid-by-folder on: {diffs:?}"), context: cx });
                    }
                }
            }
            acc
        })
        .reduce(Acc::new, Acc::merge);
    eprintln!("  [C08] folder configurations: {}", part.states);
    let merged = Acc::merge(std::mem::take(acc), part);
    *acc = merged;
}

fn cli_fx(ctx: &Ctx, env: &Env, acc: &mut Acc) {
    crate::cli::need_tool();
    let files = menu();
    let ledger = "2024-03-10 BUY X 10 @ 100 USD\n2024-03-20 SELL X 4 @ 120 EUR FEES 2 USD\n2024-04-02 SELL X 1 @ 120 USD\n";
    let usd_apr = env.rates.get(&("USD".to_string(), 2024, 4)).copied().unwrap_or_else(|| machinery_failure("no bundled USD 2024-04"));
    let cases: Vec<(&str, Vec<usize>, bool, bool)> = vec![
        ("no folder", vec![], false, true),
        ("empty folder", vec![], true, true),
        ("override 2024-03", vec![0], true, true),
        ("override + prefix file + future month + notes.txt", vec![0, 1, 2], true, true),
        ("mismatched period", vec![0, 3], true, false),
        ("zero rate", vec![4], true, false),
        ("negative rate", vec![5], true, false),
        ("malformed xml", vec![6], true, false),
    ];
    for (name, idx, with_folder, should_ok) in cases {
        let sc = Scratch::new();
        sc.all_years_config();
        sc.write("in.cgt", ledger.as_bytes());
        let mut args = vec!["report", "in.cgt", "--format", "json"];
        if with_folder {
            std::fs::create_dir_all(sc.path("fx")).ok();
            for i in &idx {
                sc.write(&format!("fx/{}", files[*i].name), files[*i].content.as_bytes());
            }
            if idx.len() >= 3 {
                sc.write("fx/notes.txt", b"not a rates file");
            }
            args.extend(["--fx-folder", "fx"]);
        }
        let o = run_tool(&args, &sc, crate::cli::T);
        acc.states += 1;
        acc.validated += 1;
        acc.bump("cli:--fx-folder");
        let input = Input::Json(json!({"case": name, "ledger": ledger, "folder_files": idx.iter().map(|i| files[*i].name).collect::<Vec<_>>()}));
        let cx = json!({"profile": "cli-fx-folder", "exit": o.code, "stderr": o.err().chars().take(300).collect::<String>()});
        if !should_ok {
            if o.ok() {
                acc.violation(&ctx.findings, "C08", Violation { clause: "bad-rates-file-accepted".into(), input, detail: "the CLI produced a report with a bad rates file in --fx-folder".into(), context: cx });
            } else if !o.clean_failure() || !o.stdout.is_empty() {
                acc.violation(&ctx.findings, "C08", Violation { clause: "unclean-failure".into(), input, detail: "failure is not clean".into(), context: cx });
            }
            continue;
        }
        if !o.ok() {
            acc.violation(&ctx.findings, "C08", Violation { clause: "good-folder-refused".into(), input, detail: "the CLI failed".into(), context: cx });
            continue;
        }
        // expected GBP figures: March amounts at the override (if present) else bundled; April at bundled USD
        let usd_mar = if idx.contains(&0) { dec("1.5") } else { env.rates[&("USD".to_string(), 2024, 3)] };
        let eur_mar = if idx.contains(&0) { dec("1.25") } else { env.rates[&("EUR".to_string(), 2024, 3)] };
        let rep: Value = serde_json::from_str(&o.out()).unwrap_or(Value::Null);
        let disposals: Vec<&Value> = rep["tax_years"].as_array().map(|a| a.iter().flat_map(|y| y["disposals"].as_array().cloned().unwrap_or_default().into_iter().map(|_| y).collect::<Vec<_>>()).collect()).unwrap_or_default();
        let _ = disposals;
        let gross = |date: &str| -> Option<Decimal> {
            for y in rep["tax_years"].as_array()? {
                for d in y["disposals"].as_array()? {
                    if d["date"].as_str() == Some(date) {
                        return d["gross_proceeds"].as_str().and_then(|s| s.parse().ok());
                    }
                }
            }
            None
        };
        let want_mar = (dec("4") * dec("120") / eur_mar).round_dp(2);
        let want_apr = (dec("120") / usd_apr).round_dp(2);
        let cost_mar = (dec("4") * dec("100") / usd_mar).round_dp(2);
        let got_cost = rep["tax_years"][0]["disposals"][0]["matches"][0]["allowable_cost"].as_str().and_then(|s| s.parse::<Decimal>().ok());
        let pen = dec("0.011");
        let close = |a: Option<Decimal>, b: Decimal| a.map(|a| (a - b).abs() <= pen).unwrap_or(false);
        if !close(gross("2024-03-20"), want_mar) || !close(gross("2024-04-02"), want_apr) || !close(got_cost, cost_mar) {
            acc.violation(&ctx.findings, "C08", Violation { clause: "wrong-rate".into(), input, detail: format!("March sale gross {:?} (expected {want_mar}), its cost {:?} (expected {cost_mar}), April sale gross {:?} (expected {want_apr})", gross("2024-03-20"), got_cost, gross("2024-04-02")), context: cx });
        }
    }
    // MCP get_fx_rate agrees with the independent table
    let sc = Scratch::new();
    let mut m = mcx::proc::Mcp::start(&sc);
    let probes = [("USD", 2024, 3), ("usd", 2015, 1), ("EUR", 2019, 12), ("JPY", 2020, 1), ("USD", 2031, 1)];
    for (i, (c, y, mo)) in probes.iter().enumerate() {
        let id = json!(i + 1);
        m.send_raw(&mcx::proc::tool_call(&id, "get_fx_rate", json!({"currency": c, "year": y, "month": mo})));
        acc.states += 1;
        acc.validated += 1;
        acc.bump("mcp:get_fx_rate");
        if !m.wait_for(&[id.to_string()], Duration::from_secs(10)) {
            acc.violation(&ctx.findings, "C08", Violation { clause: "mcp-no-response".into(), input: Input::Json(json!({"currency": c, "year": y, "month": mo})), detail: "no response".into(), context: Value::Null });
            break;
        }
        let r = mcx::proc::tool_text(&m.got[&id.to_string()][0]);
        let want = env.rates.get(&(c.to_uppercase(), *y, *mo));
        let ok = match (&r, want) {
            (Ok(t), Some(w)) => serde_json::from_str::<Value>(t).ok().and_then(|v| v["rate"].as_str().and_then(|s| s.parse::<Decimal>().ok())) == Some(*w),
            (Err(_), None) => true,
            _ => false,
        };
        if !ok {
            acc.violation(&ctx.findings, "C08", Violation { clause: "mcp-rate-differs".into(), input: Input::Json(json!({"currency": c, "year": y, "month": mo})), detail: format!("get_fx_rate answered {r:?}, bundled table says {want:?}"), context: Value::Null });
        }
    }
    let _ = m.finish();
}

/// The MCP front-end of the rate table: get_fx_rate for every month 2014-12 .. 2026-06 in USD, EUR and JPY (and a
/// lower-case spelling), pipelined into one real `cgt-tool mcp` session, against the independent reader of the XML.
fn mcp_rates(ctx: &Ctx, env: &Env, acc: &mut Acc) {
    use mcx::proc::{Mcp, tool_call, tool_text};
    let sc = Scratch::new();
    let mut m = Mcp::start(&sc);
    let mut cells = vec![];
    let (mut y, mut mo) = (2014, 12u32);
    while (y, mo) <= (2026, 6) {
        for code in ["USD", "EUR", "JPY", "usd"] {
            cells.push((code, y, mo));
        }
        let n = next_month(y, mo);
        y = n.0;
        mo = n.1;
    }
    let mut ids = vec![];
    for (i, (code, y, mo)) in cells.iter().enumerate() {
        let id = json!(i + 1);
        m.send_raw(&tool_call(&id, "get_fx_rate", json!({"currency": code, "year": y, "month": mo})));
        ids.push(id.to_string());
    }
    let ok = m.wait_for(&ids, Duration::from_secs(60));
    acc.states += cells.len() as u64;
    acc.validated += cells.len() as u64;
    acc.add("mcp:get_fx_rate", cells.len() as u64);
    if !ok {
        acc.violation(&ctx.findings, "C08", Violation { clause: "mcp-rate".into(), input: Input::Json(json!({"tool": "get_fx_rate"})), detail: "not every get_fx_rate request was answered within 60 s".into(), context: json!({"profile": "mcp-rates"}) });
    }
    for (id, (code, y, mo)) in ids.iter().zip(cells.iter()) {
        let Some(resp) = m.got.get(id).and_then(|v| v.first()) else { continue };
        let want = env.rates.get(&(code.to_uppercase(), *y, *mo));
        let input = || Input::Json(json!({"tool": "get_fx_rate", "currency": code, "year": y, "month": mo}));
        let cx = json!({"profile": "mcp-rates"});
        match (tool_text(resp), want) {
            (Ok(t), Some(r)) => {
                let v: Value = serde_json::from_str(&t).unwrap_or(Value::Null);
                let shown = v["rate"].as_str().and_then(|s| s.parse::<Decimal>().ok());
                if shown != Some(*r) || v["currency"].as_str() != Some(code.to_uppercase().as_str()) || v["period"].as_str() != Some(format!("{y}-{mo:02}").as_str()) {
                    acc.violation(&ctx.findings, "C08", Violation { clause: "mcp-rate".into(), input: input(), detail: format!("get_fx_rate answers {t} but the bundled HMRC rate is {r}"), context: cx });
                }
            }
            (Ok(t), None) => acc.violation(&ctx.findings, "C08", Violation { clause: "mcp-rate".into(), input: input(), detail: format!("no HMRC rate is bundled for that month, yet get_fx_rate answers {t}"), context: cx }),
            (Err(e), Some(r)) => acc.violation(&ctx.findings, "C08", Violation { clause: "mcp-rate".into(), input: input(), detail: format!("the bundled rate is {r} but get_fx_rate fails: {e}"), context: cx }),
            (Err(e), None) => {
                acc.bump("mcp:missing-rate-refused");
                if !e.contains(&code.to_uppercase()) || !e.contains(&format!("{y}-{mo:02}")) {
                    acc.violation(&ctx.findings, "C08", Violation { clause: "mcp-rate".into(), input: input(), detail: format!("the error must name the currency and the month: {e}"), context: cx });
                }
            }
        }
    }
    let _ = m.finish();
}

pub fn c08(tier: Tier) -> i32 {
    let mut ctx = Ctx::new("C08", tier, preds::all());
    let env = Env::new();
    let mut acc = Acc::new();
    sweep_table(&ctx, &env, &mut acc);
    let ms = months_of(&env.rates);
    let last = *ms.last().unwrap_or(&(2025, 1));
    let first_missing = next_month(last.0, last.1);
    let months = [(2015, 1), (2019, 12), (2020, 1), last, first_missing];
    let (n1, n2) = match tier {
        Tier::Quick => (3, 2),
        Tier::Thorough => (4, 3),
    };
    for (a, n) in [(fx_alphabet(&months, &["GBP", "USD", "JPY"], false), n1), (fx_alphabet(&months, &["GBP", "USD", "EUR", "JPY"], true), n2)] {
        let ctxr: &Ctx = &ctx;
        let t0 = std::time::Instant::now();
        let part = a.explore(n, Acc::new, |acc, idx| visit_pair(ctxr, &env, acc, &a.ledger(idx), &a.name), Acc::merge);
        eprintln!("  [C08] {} N<={n}: {} ledgers in {:.1}s", a.name, part.states, t0.elapsed().as_secs_f64());
        let mut d = a.describe();
        d["max_events"] = json!(n);
        d.as_object_mut().map(|o| o.remove("events"));
        d["events_sample"] = json!(a.evs.iter().take(8).map(alpha::dsl_line).collect::<Vec<_>>());
        ctx.alphabets.push(d);
        acc = Acc::merge(acc, part);
    }
    folder_configs(&ctx, &env, &mut acc);
    row_sequences(&ctx, &mut acc);
    cli_fx(&ctx, &env, &mut acc);
    mcp_rates(&ctx, &env, &mut acc);
    for k in ["table:converted", "table:missing-refused", "twin-both-accepted", "shape:needed-rate-missing", "shape:two-months-in-one-ledger", "folder:overlay-compared", "folder:bad-file-refused", "cli:--fx-folder"] {
        ctx.require(acc.get(k) > 0, &format!("nothing exhibited {k}"));
    }
    ctx.bound = json!({"table": "every bundled month + 3 following months + 2014-12 + 2040-06, every ISO currency", "fxpairs_max_events": n1, "fxpairs_all_kinds_max_events": n2, "folder_menu": "all subsets of 8 files x both modification-time orders"});
    ctx.alphabets.push(json!({"name": "folder menu", "files": menu().iter().map(|f| json!({"name": f.name, "good": f.good})).collect::<Vec<_>>()}));
    ctx.explanation = "(a) for every month of the bundled table (and months outside it) and every ISO-4217 code, a one-line ledger in that currency and month is executed: the GBP cost must equal amount / rate with the rate re-read from the XML by an independent scanner, or the run must fail naming currency and month. (b) every ledger of the `fxpairs` graphs (all kinds, price and fees in different currencies, two transactions in different months incl. the first missing month) is executed and compared leg for leg with its pre-converted GBP twin run without any FX table. (c) every subset of an 8-file rates-folder menu in both modification-time orders goes through load_cache_with_overrides: bad files must be refused, otherwise the cache must equal bundled-overlaid-by-folder on every (currency, month) key; a subset through --fx-folder and MCP get_fx_rate.".into();
    ctx.assumptions = vec!["two folder files defining the same (currency, month) are not in the menu (precedence not stated by the property)".into()];
    ctx.finish(&acc, "model_checking")
}
