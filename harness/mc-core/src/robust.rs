//! C15: every input yields a complete result or a clean error. Untrusted-input sweeps run in child processes
//! (`mc-core C15-child ...`) so that an abort or a hang cannot take the explorer down; the parent merges.
use crate::preds;
use cgt_core::parser::parse_file;
use cgt_core::{Currency, CurrencyAmount, Operation, TaxReport, Transaction, validate};
use chrono::{Duration as CDuration, NaiveDate};
use mcx::alpha::{self, dec, dsl_text};
use mcx::observe::{Outcome, all_years_config, panic_msg, run_calc};
use mcx::proc::{Scratch, run_tool};
use mcx::run::{Acc, Ctx, Input, Tier, Violation, machinery_failure};
use rayon::prelude::*;
use serde_json::{Value, json};
use std::io::Write;
use std::panic::{AssertUnwindSafe, catch_unwind};
use std::sync::Mutex;
use std::sync::atomic::{AtomicU64, Ordering};
use std::time::{Duration, Instant};

// ------------------------------------------------------------------------------------------ child side
static CURRENT: Mutex<Option<(Instant, String)>> = Mutex::new(None);
static COUNT: AtomicU64 = AtomicU64::new(0);

fn start_watchdog() {
    std::thread::spawn(|| {
        loop {
            std::thread::sleep(Duration::from_millis(500));
            let cur = CURRENT.lock().ok().and_then(|g| g.clone());
            if let Some((t0, input)) = cur {
                if t0.elapsed() > Duration::from_secs(10) {
                    let out = std::io::stdout();
                    let mut o = out.lock();
                    let _ = writeln!(o, "{}", json!({"viol": {"clause": "hang", "input": input, "detail": "one execution ran for more than 10 s"}}));
                    let _ = o.flush();
                    std::process::exit(3);
                }
            }
        }
    });
}
fn set_current(s: &str) {
    if let Ok(mut g) = CURRENT.lock() {
        *g = Some((Instant::now(), s.to_string()));
    }
}

fn emit(v: Value) {
    let out = std::io::stdout();
    let mut o = out.lock();
    let _ = writeln!(o, "{v}");
}

/// Everything the front-ends do with a report, minus the PDF (C17 owns that): derived getters, text, JSON.
fn observe_report(rep: &TaxReport) {
    for y in &rep.tax_years {
        let _ = y.taxable_gain(y.exempt_amount);
        let _ = y.gross_proceeds();
        let _ = y.disposal_count();
        for d in &y.disposals {
            let _ = d.net_gain_or_loss();
            let _ = d.total_allowable_cost();
        }
    }
    let _ = cgt_formatter_plain::format(rep);
    let _ = serde_json::to_string(rep);
}

/// parse -> validate -> calculate -> observe, each under catch_unwind. Returns (stage reached, panic stage+msg)
pub fn pipeline_stage(text: &str) -> String {
    let (stage, pan) = pipeline_text(text);
    format!("{stage} {pan:?}")
}

fn pipeline_text(text: &str) -> (&'static str, Option<(String, String)>) {
    let p = catch_unwind(AssertUnwindSafe(|| parse_file(text)));
    match p {
        Err(e) => ("parse", Some(("parse_file".into(), panic_msg(e)))),
        Ok(Err(_)) => ("parse-error", None),
        Ok(Ok(txs)) => pipeline_txs(&txs),
    }
}
fn pipeline_txs(txs: &[Transaction]) -> (&'static str, Option<(String, String)>) {
    if let Err(e) = catch_unwind(AssertUnwindSafe(|| validate(txs).is_valid())) {
        return ("validate", Some(("validate".into(), panic_msg(e))));
    }
    let cfg = CFG.get_or_init(all_years_config);
    match run_calc(txs, None, None, cfg) {
        Outcome::Panic(m) => ("calculate", Some(("calculate".into(), m))),
        Outcome::Err { .. } => ("calculate-error", None),
        Outcome::Report(rep) => match catch_unwind(AssertUnwindSafe(|| observe_report(&rep))) {
            Err(e) => ("format", Some(("format/serialise/derived getters".into(), panic_msg(e)))),
            Ok(()) => ("report", None),
        },
    }
}
static CFG: std::sync::OnceLock<cgt_core::Config> = std::sync::OnceLock::new();

pub const TOKENS: [&str; 30] = [
    "2024-01-15", "2024-13-01", "BUY", "SELL", "DIVIDEND", "ACCUMULATION", "CAPRETURN", "SPLIT", "UNSPLIT", "FEES", "TAX", "TOTAL", "RATIO", "X", "1", "0", "1.", ".5", "-1", "@", "GBP", "ZZZ", "#", "\n", "\r", " ", "\t", "é", "\0",
    "2024-02-01 SELL X 1 @ 1\n",
];

fn child_tokens(first: usize, max_len: usize) {
    let mut hist: std::collections::BTreeMap<&'static str, u64> = Default::default();
    let mut seq = vec![first];
    fn rec(seq: &mut Vec<usize>, max_len: usize, hist: &mut std::collections::BTreeMap<&'static str, u64>) {
        let text: String = seq.iter().map(|&i| TOKENS[i]).collect::<Vec<_>>().join(" ");
        set_current(&text);
        COUNT.fetch_add(1, Ordering::Relaxed);
        let (stage, pan) = pipeline_text(&text);
        *hist.entry(stage).or_insert(0) += 1;
        if let Some((st, msg)) = pan {
            emit(json!({"viol": {"clause": "panic", "input": text, "detail": format!("{st} panicked: {msg}")}}));
        }
        if seq.len() < max_len {
            for j in 0..TOKENS.len() {
                seq.push(j);
                rec(seq, max_len, hist);
                seq.pop();
            }
        }
    }
    rec(&mut seq, max_len, &mut hist);
    emit(json!({"stats": {"states": COUNT.load(Ordering::Relaxed), "hist": hist}}));
}

pub fn magnitudes() -> Vec<&'static str> {
    vec!["0", "0.000001", "1", "1000000", "0.0000000000000000000000000001", "100000000000000", "79000000000000000000000000000"]
}

fn gbp(s: &str) -> CurrencyAmount {
    CurrencyAmount::new(dec(s), Currency::GBP)
}

/// magnitude event alphabet: (kind, fields) without date; dates are assigned by position.
pub fn magnitude_events() -> Vec<Operation<CurrencyAmount>> {
    let m = magnitudes();
    let mut v = vec![];
    for q in &m {
        for p in &m {
            v.push(Operation::Buy { amount: dec(q), price: gbp(p), fees: gbp("0") });
            v.push(Operation::Sell { amount: dec(q), price: gbp(p), fees: gbp("0") });
        }
    }
    for f in &m {
        v.push(Operation::Buy { amount: dec("1"), price: gbp("1"), fees: gbp(f) });
        v.push(Operation::Sell { amount: dec("1"), price: gbp("1"), fees: gbp(f) });
        v.push(Operation::Split { ratio: dec(f) });
        v.push(Operation::Unsplit { ratio: dec(f) });
        v.push(Operation::CapReturn { amount: dec("1"), total_value: gbp(f), fees: gbp("0") });
        v.push(Operation::Accumulation { amount: dec("1"), total_value: gbp(f), tax_paid: gbp("0") });
        v.push(Operation::Dividend { total_value: gbp(f), tax_paid: gbp("1") });
        v.push(Operation::Dividend { total_value: gbp("1"), tax_paid: gbp(f) });
    }
    v
}

fn child_magnitudes(first: usize, max_len: usize, base: NaiveDate) {
    let evs = magnitude_events();
    let mut hist: std::collections::BTreeMap<&'static str, u64> = Default::default();
    let mut seq = vec![first];
    fn rec(seq: &mut Vec<usize>, max_len: usize, evs: &[Operation<CurrencyAmount>], base: NaiveDate, hist: &mut std::collections::BTreeMap<&'static str, u64>) {
        let txs: Vec<Transaction> = seq.iter().enumerate().map(|(k, &i)| Transaction { date: base + CDuration::days(k as i64), ticker: "X".into(), operation: evs[i].clone() }).collect();
        let text = dsl_text(&txs);
        set_current(&text);
        COUNT.fetch_add(1, Ordering::Relaxed);
        let (stage, pan) = pipeline_txs(&txs);
        *hist.entry(stage).or_insert(0) += 1;
        if let Some((st, msg)) = pan {
            emit(json!({"viol": {"clause": "panic", "input": text, "detail": format!("{st} panicked: {msg}")}}));
        }
        if seq.len() < max_len {
            for j in 0..evs.len() {
                seq.push(j);
                rec(seq, max_len, evs, base, hist);
                seq.pop();
            }
        }
    }
    rec(&mut seq, max_len, &evs, base, &mut hist);
    emit(json!({"stats": {"states": COUNT.load(Ordering::Relaxed), "hist": hist}}));
}

pub fn child(args: &[String]) -> i32 {
    start_watchdog();
    let mode = args.first().map(|s| s.as_str()).unwrap_or("");
    let first: usize = args.get(1).and_then(|s| s.parse().ok()).unwrap_or(0);
    let max_len: usize = args.get(2).and_then(|s| s.parse().ok()).unwrap_or(1);
    match mode {
        "tokens" => child_tokens(first, max_len),
        "magnitudes" => {
            let base = args.get(3).and_then(|s| NaiveDate::parse_from_str(s, "%Y-%m-%d").ok()).unwrap_or(alpha::date(2024, 1, 10));
            child_magnitudes(first, max_len, base)
        }
        _ => return 2,
    }
    0
}

// ------------------------------------------------------------------------------------------ parent side

fn run_children(ctx: &Ctx, acc: &mut Acc, mode: &str, firsts: usize, max_len: usize, extra: &[&str], label: &str) {
    let exe = std::env::current_exe().unwrap_or_else(|e| machinery_failure(&format!("current_exe: {e}")));
    let part = (0..firsts)
        .into_par_iter()
        .fold(Acc::new, |mut acc, first| {
            let mut cmd = std::process::Command::new(&exe);
            cmd.arg("C15-child").arg(mode).arg(first.to_string()).arg(max_len.to_string());
            for e in extra {
                cmd.arg(e);
            }
            let out = cmd.output().unwrap_or_else(|e| machinery_failure(&format!("cannot spawn child: {e}")));
            let mut got_stats = false;
            for line in String::from_utf8_lossy(&out.stdout).lines() {
                let Ok(v) = serde_json::from_str::<Value>(line) else { continue };
                if let Some(s) = v.get("stats") {
                    got_stats = true;
                    let n = s["states"].as_u64().unwrap_or(0);
                    acc.states += n;
                    acc.validated += n;
                    if let Some(h) = s["hist"].as_object() {
                        for (k, c) in h {
                            acc.add(&format!("{label}:{k}"), c.as_u64().unwrap_or(0));
                        }
                    }
                }
                if let Some(x) = v.get("viol") {
                    let input = x["input"].as_str().unwrap_or("").to_string();
                    let d = x["detail"].as_str().unwrap_or("");
                    acc.bump(&format!("panic-kind:{}", d.chars().take(70).collect::<String>()));
                    let inp = match mcx::refparse::parse(&input) {
                        Ok(t) if mode == "magnitudes" => Input::Ledger(t),
                        _ => Input::Text(input),
                    };
                    acc.violation(&ctx.findings, "C15", Violation { clause: x["clause"].as_str().unwrap_or("panic").into(), input: inp, detail: x["detail"].as_str().unwrap_or("").into(), context: json!({"profile": label}) });
                }
            }
            use std::os::unix::process::ExitStatusExt;
            if !got_stats || out.status.code() != Some(0) {
                acc.violation(
                    &ctx.findings,
                    "C15",
                    Violation { clause: "abort".into(), input: Input::Json(json!({"child": format!("{mode} first={first} max_len={max_len}")})), detail: format!("child process ended abnormally: code {:?} signal {:?}; stderr tail: {}", out.status.code(), out.status.signal(), String::from_utf8_lossy(&out.stderr).chars().rev().take(300).collect::<String>().chars().rev().collect::<String>()), context: json!({"profile": label}) },
                );
            }
            acc
        })
        .reduce(Acc::new, Acc::merge);
    eprintln!("  [C15] {label}: {} executions", part.states);
    let merged = Acc::merge(std::mem::take(acc), part);
    *acc = merged;
}

/// (d) validator truth table: every sign pattern of every numeric field of every kind.
fn validator_table(ctx: &Ctx, acc: &mut Acc) {
    let signs = ["-1", "0", "1"];
    let d = alpha::date(2024, 1, 15);
    let check = |acc: &mut Acc, t: Transaction, expect_error: bool| {
        acc.states += 1;
        acc.validated += 1;
        acc.bump("validator:cells");
        let got = catch_unwind(AssertUnwindSafe(|| !validate(std::slice::from_ref(&t)).is_valid()));
        match got {
            Err(p) => acc.violation(&ctx.findings, "C15", Violation { clause: "panic".into(), input: Input::Json(json!({"transaction": format!("{t:?}")})), detail: panic_msg(p), context: json!({"profile": "validator"}) }),
            Ok(g) if g != expect_error => acc.violation(&ctx.findings, "C15", Violation { clause: "validator-truth-table".into(), input: Input::Json(json!({"transaction": format!("{t:?}")})), detail: format!("validator reports error = {g}, the statement says {expect_error}"), context: json!({"profile": "validator"}) }),
            _ => {}
        }
    };
    for q in signs {
        for p in signs {
            for f in signs {
                let bad = q != "1" || p == "-1" || f == "-1";
                check(acc, Transaction { date: d, ticker: "X".into(), operation: Operation::Buy { amount: dec(q), price: gbp(p), fees: gbp(f) } }, bad);
                check(acc, Transaction { date: d, ticker: "X".into(), operation: Operation::Sell { amount: dec(q), price: gbp(p), fees: gbp(f) } }, bad);
                check(acc, Transaction { date: d, ticker: "X".into(), operation: Operation::CapReturn { amount: dec(q), total_value: gbp(p), fees: gbp(f) } }, bad);
                // ACCUMULATION: quantity, total value; tax is neither price, fee nor total value
                check(acc, Transaction { date: d, ticker: "X".into(), operation: Operation::Accumulation { amount: dec(q), total_value: gbp(p), tax_paid: gbp(f) } }, q != "1" || p == "-1");
            }
        }
    }
    for v in signs {
        for t in signs {
            check(acc, Transaction { date: d, ticker: "X".into(), operation: Operation::Dividend { total_value: gbp(v), tax_paid: gbp(t) } }, v == "-1");
        }
        check(acc, Transaction { date: d, ticker: "X".into(), operation: Operation::Split { ratio: dec(v) } }, v != "1");
        check(acc, Transaction { date: d, ticker: "X".into(), operation: Operation::Unsplit { ratio: dec(v) } }, v != "1");
    }
}

/// (c) CLI fault menu: command x input x output cell, one process per cell.
fn cli_fault_menu(ctx: &Ctx, acc: &mut Acc) {
    crate::cli::need_tool();
    let inputs: Vec<(&str, Vec<u8>, bool)> = vec![
        ("ok", b"2024-01-15 BUY X 10 @ 10\n2024-02-01 SELL X 4 @ 12 FEES 1\n".to_vec(), true),
        ("syntax-error", b"2024-01-15 BUY X 10 @ 10\n2024-02-01 SELL X four @ 12\n".to_vec(), false),
        ("uncovered-sale", b"2024-02-01 SELL X 4 @ 12\n".to_vec(), false),
        ("missing-fx-month", b"2031-01-15 BUY X 10 @ 10 USD\n2031-02-01 SELL X 4 @ 12 USD\n".to_vec(), false),
        ("unknown-currency", b"2024-01-15 BUY X 10 @ 10 ZZZ\n".to_vec(), false),
        ("non-utf8", vec![0x32, 0x30, 0xff, 0xfe, 0x0a], false),
        ("unconfigured-year", b"2050-01-15 BUY X 10 @ 10\n2050-02-01 SELL X 4 @ 12\n".to_vec(), false),
        ("zero-quantity", b"2024-01-15 BUY X 0 @ 10\n2024-02-01 SELL X 0 @ 12\n".to_vec(), true),
        ("empty-file", b"".to_vec(), true),
    ];
    #[derive(Clone, Copy, PartialEq, Debug)]
    enum OutKind {
        Stdout,
        NewFile,
        ExistingFile,
        UnwritableDir,
        DefaultPdfExisting,
    }
    let formats = ["plain", "json", "pdf"];
    let mut cells: Vec<(String, Vec<u8>, bool, &str, OutKind)> = vec![];
    for (name, bytes, ok) in &inputs {
        for f in formats {
            for o in [OutKind::Stdout, OutKind::NewFile, OutKind::ExistingFile, OutKind::UnwritableDir, OutKind::DefaultPdfExisting] {
                if o == OutKind::DefaultPdfExisting && f != "pdf" {
                    continue;
                }
                cells.push((name.to_string(), bytes.clone(), *ok, f, o));
            }
        }
    }
    let part = cells
        .par_iter()
        .fold(Acc::new, |mut acc, (name, bytes, input_ok, fmt, okind)| {
            let sc = Scratch::new();
            sc.write("in.cgt", bytes);
            let mut args: Vec<String> = vec!["report".into(), "in.cgt".into(), "--format".into(), fmt.to_string()];
            let sentinel = b"SENTINEL-CONTENT".to_vec();
            let mut watched: Option<std::path::PathBuf> = None;
            match okind {
                OutKind::Stdout => {
                    if *fmt == "pdf" {
                        // default path in.pdf, not existing
                    }
                }
                OutKind::NewFile => {
                    args.push("--output".into());
                    args.push("out.bin".into());
                    watched = Some(sc.path("out.bin"));
                }
                OutKind::ExistingFile => {
                    sc.write("out.bin", &sentinel);
                    args.push("--output".into());
                    args.push("out.bin".into());
                    watched = Some(sc.path("out.bin"));
                }
                OutKind::UnwritableDir => {
                    args.push("--output".into());
                    args.push("no/such/dir/out.bin".into());
                }
                OutKind::DefaultPdfExisting => {
                    sc.write("in.pdf", &sentinel);
                    watched = Some(sc.path("in.pdf"));
                }
            }
            let argv: Vec<&str> = args.iter().map(|s| s.as_str()).collect();
            let o = run_tool(&argv, &sc, Duration::from_secs(30));
            acc.states += 1;
            acc.validated += 1;
            acc.bump("cli-fault-menu:cells");
            let cell = json!({"input": name, "format": fmt, "output": format!("{okind:?}"), "args": args});
            let cx = json!({"exit": o.code, "signal": o.signal, "stderr": o.err().chars().take(300).collect::<String>(), "profile": "cli-fault-menu"});
            let push = |acc: &mut Acc, clause: &str, detail: String| {
                acc.violation(&ctx.findings, "C15", Violation { clause: clause.into(), input: Input::Json(cell.clone()), detail, context: cx.clone() });
            };
            if o.timed_out {
                push(&mut acc, "hang", "no exit within 30 s".into());
                return acc;
            }
            if o.signal.is_some() || o.code == Some(101) || o.err().contains("panicked at") {
                push(&mut acc, "panic", "the process panicked or was killed by a signal".into());
                return acc;
            }
            let must_fail = !*input_ok || *okind == OutKind::UnwritableDir || *okind == OutKind::DefaultPdfExisting;
            let after = watched.as_ref().map(|p| std::fs::read(p).ok());
            if must_fail {
                acc.bump("cli-fault-menu:expected-failures");
                if o.code == Some(0) {
                    push(&mut acc, "failure-not-signalled", "the run should fail but exits 0".into());
                }
                if !o.stdout.is_empty() {
                    push(&mut acc, "stdout-on-failure", format!("{} bytes on standard output of a failing run", o.stdout.len()));
                }
                match (okind, after) {
                    (OutKind::NewFile, Some(Some(_))) => push(&mut acc, "output-touched-on-failure", "--output file was created by a failing run".into()),
                    (OutKind::ExistingFile, Some(a)) | (OutKind::DefaultPdfExisting, Some(a)) => {
                        if a.as_deref() != Some(sentinel.as_slice()) {
                            push(&mut acc, "output-touched-on-failure", "pre-existing output file was changed or removed by a failing run".into());
                        }
                    }
                    _ => {}
                }
                if o.err().trim().is_empty() {
                    push(&mut acc, "no-error-message", "failing run printed nothing on standard error".into());
                }
            } else {
                acc.bump("cli-fault-menu:expected-successes");
                if o.code != Some(0) {
                    push(&mut acc, "unexpected-failure", "the run should succeed".into());
                } else {
                    match okind {
                        OutKind::Stdout => {
                            if *fmt != "pdf" && o.stdout.is_empty() {
                                push(&mut acc, "empty-report", "successful run printed nothing".into());
                            }
                            if *fmt == "pdf" && !sc.path("in.pdf").exists() {
                                push(&mut acc, "pdf-not-written", "default PDF path not written".into());
                            }
                        }
                        OutKind::NewFile | OutKind::ExistingFile => {
                            let a = after.flatten().unwrap_or_default();
                            if a.is_empty() || a == sentinel {
                                push(&mut acc, "output-not-written", "--output file missing, empty or unchanged after a successful run".into());
                            }
                            if *fmt == "pdf" && !a.starts_with(b"%PDF") {
                                push(&mut acc, "output-not-written", "--output is not a PDF".into());
                            }
                        }
                        _ => {}
                    }
                }
            }
            acc
        })
        .reduce(Acc::new, Acc::merge);
    let merged = Acc::merge(std::mem::take(acc), part);
    *acc = merged;
    // the default PDF path of a multi-file report is ./report.pdf: it must not replace an existing file either
    {
        let sc = Scratch::new();
        sc.write("a.cgt", b"2024-01-15 BUY X 10 @ 10\n");
        sc.write("b.cgt", b"2024-02-01 SELL X 4 @ 12 FEES 1\n");
        let sentinel = b"SENTINEL-CONTENT".to_vec();
        sc.write("report.pdf", &sentinel);
        let o = run_tool(&["report", "a.cgt", "b.cgt", "--format", "pdf"], &sc, Duration::from_secs(30));
        acc.states += 1;
        acc.validated += 1;
        acc.bump("cli-fault-menu:cells");
        let cell = json!({"case": "multi-file report --format pdf with an existing ./report.pdf", "args": ["report", "a.cgt", "b.cgt", "--format", "pdf"]});
        let cx = json!({"exit": o.code, "stderr": o.err().chars().take(300).collect::<String>(), "profile": "cli-fault-menu"});
        let after = std::fs::read(sc.path("report.pdf")).ok();
        if after.as_deref() != Some(sentinel.as_slice()) {
            acc.violation(&ctx.findings, "C15", Violation { clause: "output-touched-on-failure".into(), input: Input::Json(cell.clone()), detail: "the default PDF path ./report.pdf replaced an existing file".into(), context: cx.clone() });
        }
        if o.code == Some(0) || !o.stdout.is_empty() {
            acc.violation(&ctx.findings, "C15", Violation { clause: "failure-not-signalled".into(), input: Input::Json(cell), detail: "the run should fail (default PDF path exists) but exits 0 or prints to stdout".into(), context: cx });
        }
        // and without a pre-existing file the same command succeeds and writes ./report.pdf
        let sc2 = Scratch::new();
        sc2.write("a.cgt", b"2024-01-15 BUY X 10 @ 10\n");
        sc2.write("b.cgt", b"2024-02-01 SELL X 4 @ 12 FEES 1\n");
        let o2 = run_tool(&["report", "a.cgt", "b.cgt", "--format", "pdf"], &sc2, Duration::from_secs(30));
        acc.states += 1;
        acc.validated += 1;
        acc.bump("cli-fault-menu:cells");
        if o2.code != Some(0) || !std::fs::read(sc2.path("report.pdf")).map(|b| b.starts_with(b"%PDF")).unwrap_or(false) {
            acc.violation(&ctx.findings, "C15", Violation { clause: "pdf-not-written".into(), input: Input::Json(json!({"case": "multi-file report --format pdf, no existing report.pdf"})), detail: "multi-file PDF report did not produce ./report.pdf".into(), context: json!({"exit": o2.code, "profile": "cli-fault-menu"}) });
        }
    }
    // other commands and option values
    let singles: Vec<(&str, Vec<&str>, Option<&[u8]>, bool)> = vec![
        ("report missing file", vec!["report", "nope.cgt"], None, false),
        ("report directory", vec!["report", "."], None, false),
        ("parse missing file", vec!["parse", "nope.cgt"], None, false),
        ("parse syntax error", vec!["parse", "in.cgt"], Some(b"2024-01-15 BUY X\n"), false),
        ("parse ok", vec!["parse", "in.cgt"], Some(b"2024-01-15 BUY X 1 @ 1\n"), true),
        ("report --year -1", vec!["report", "in.cgt", "--year", "-1"], Some(b"2024-01-15 BUY X 1 @ 1\n"), false),
        ("report --year 1899", vec!["report", "in.cgt", "--year", "1899"], Some(b"2024-01-15 BUY X 1 @ 1\n"), false),
        ("report --year 2101", vec!["report", "in.cgt", "--year", "2101"], Some(b"2024-01-15 BUY X 1 @ 1\n"), false),
        ("report --year 2147483647", vec!["report", "in.cgt", "--year", "2147483647"], Some(b"2024-01-15 BUY X 1 @ 1\n"), false),
        ("report --year 2024", vec!["report", "in.cgt", "--year", "2024"], Some(b"2024-01-15 BUY X 1 @ 1\n"), true),
        ("report missing fx folder", vec!["report", "in.cgt", "--fx-folder", "nofolder"], Some(b"2024-01-15 BUY X 1 @ 1\n"), false),
        ("convert missing file", vec!["convert", "schwab", "nope.json"], None, false),
        ("convert not json", vec!["convert", "schwab", "in.cgt"], Some(b"not json"), false),
        ("convert empty export", vec!["convert", "schwab", "in.cgt"], Some(b"{\"BrokerageTransactions\":[]}"), true),
        ("convert rsu without awards", vec!["convert", "schwab", "in.cgt"], Some(br#"{"BrokerageTransactions":[{"Date":"01/15/2024","Action":"Stock Plan Activity","Symbol":"X","Description":"d","Quantity":"10","Price":"","Fees & Comm":"","Amount":""}]}"#), false),
    ];
    for (name, args, content, should_ok) in singles {
        let sc = Scratch::new();
        if let Some(c) = content {
            sc.write("in.cgt", c);
        }
        let o = run_tool(&args, &sc, Duration::from_secs(30));
        acc.states += 1;
        acc.validated += 1;
        acc.bump("cli-fault-menu:cells");
        let cell = json!({"case": name, "args": args});
        let cx = json!({"exit": o.code, "signal": o.signal, "stderr": o.err().chars().take(300).collect::<String>(), "profile": "cli-fault-menu"});
        let push = |acc: &mut Acc, clause: &str, detail: String| {
            acc.violation(&ctx.findings, "C15", Violation { clause: clause.into(), input: Input::Json(cell.clone()), detail, context: cx.clone() });
        };
        if o.timed_out {
            push(acc, "hang", "no exit within 30 s".into());
        } else if o.signal.is_some() || o.code == Some(101) || o.err().contains("panicked at") {
            push(acc, "panic", "the process panicked or was killed by a signal".into());
        } else if should_ok && o.code != Some(0) {
            push(acc, "unexpected-failure", "the run should succeed".into());
        } else if !should_ok {
            if o.code == Some(0) {
                push(acc, "failure-not-signalled", "the run should fail but exits 0".into());
            }
            if !o.stdout.is_empty() {
                push(acc, "stdout-on-failure", format!("{} bytes on standard output of a failing run", o.stdout.len()));
            }
        }
    }
}

fn converter_calendar_ends(ctx: &Ctx, acc: &mut Acc) {
    use cgt_converter::schwab::{SchwabConverter, SchwabInput};
    use cgt_converter::BrokerConverter;
    use chrono::NaiveDate;
    let mut dates: Vec<NaiveDate> = vec![];
    for k in 0..=10i64 {
        for anchor in [NaiveDate::MIN, NaiveDate::MAX, NaiveDate::from_ymd_opt(1, 1, 1).unwrap_or(NaiveDate::MIN), NaiveDate::from_ymd_opt(9999, 12, 31).unwrap_or(NaiveDate::MAX), NaiveDate::from_ymd_opt(0, 1, 1).unwrap_or(NaiveDate::MIN)] {
            for d in [anchor.checked_add_signed(chrono::Duration::days(k)), anchor.checked_sub_signed(chrono::Duration::days(k))].into_iter().flatten() {
                if !dates.contains(&d) {
                    dates.push(d);
                }
            }
        }
    }
    let fmt = |d: &NaiveDate| d.format("%m/%d/%Y").to_string();
    let kinds: [(&str, &str, &str, &str); 5] = [("Buy", "10", "$5", ""), ("Sell", "4", "$6", ""), ("Stock Plan Activity", "10", "", ""), ("Cash Dividend", "", "", "$5.00"), ("NRA Withholding", "", "", "-$0.75")];
    for d in &dates {
        for (action, qty, price, amount) in kinds {
            for date_field in [fmt(d), format!("{} as of {}", fmt(&chrono::NaiveDate::from_ymd_opt(2024, 1, 15).unwrap_or(*d)), fmt(d))] {
                for awards in [None, Some(serde_json::json!({"Transactions": [{"Date": "01/15/2024", "Action": "Deposit", "Symbol": "X", "TransactionDetails": [{"Details": {"VestDate": "01/15/2024", "VestFairMarketValue": "$9.50"}}]}]}).to_string())] {
                    let tx = serde_json::json!({"BrokerageTransactions": [{"Date": date_field, "Action": action, "Symbol": "X", "Description": "d", "Quantity": qty, "Price": price, "Fees & Comm": "", "Amount": amount}]}).to_string();
                    let input = SchwabInput { transactions_json: tx.clone(), awards_json: awards.clone() };
                    acc.states += 1;
                    acc.validated += 1;
                    acc.bump("converter:calendar-ends");
                    if let Err(p) = std::panic::catch_unwind(std::panic::AssertUnwindSafe(|| SchwabConverter::new().convert(&input))) {
                        acc.violation(&ctx.findings, "C15", Violation { clause: "panic".into(), input: Input::Json(serde_json::json!({"transactions": serde_json::from_str::<serde_json::Value>(&tx).unwrap_or_default(), "awards": awards})), detail: format!("SchwabConverter::convert panicked: {}", mcx::observe::panic_msg(p)), context: serde_json::json!({"profile": "converter-calendar-ends"}) });
                    }
                }
            }
        }
    }
}

pub fn c15(tier: Tier) -> i32 {
    let mut ctx = Ctx::new("C15", tier, preds::all());
    let mut acc = Acc::new();
    let (l_tok, l_mag) = match tier {
        Tier::Quick => (4, 3),
        Tier::Thorough => (5, 3),
    };
    run_children(&ctx, &mut acc, "tokens", TOKENS.len(), l_tok, &[], "tokens");
    let nmag = magnitude_events().len();
    run_children(&ctx, &mut acc, "magnitudes", nmag, l_mag, &["2024-01-10"], "magnitudes");
    // calendar ends
    for base in ["0001-01-01", "1900-04-04", "2101-04-05", "9999-12-29"] {
        run_children(&ctx, &mut acc, "magnitudes", nmag, 2.min(l_mag), &[base], &format!("magnitudes@{base}"));
    }
    // 30-day window across a SPLIT/UNSPLIT whose ratio ranges over the magnitude alphabet (needs 4 events)
    {
        let d0 = alpha::date(2024, 1, 10);
        for m in magnitudes() {
            for unsplit in [false, true] {
                for q in ["1", "0.000001", "1000000"] {
                    let txs = vec![
                        alpha::buy(d0, "X", "1000000", "1", "0"),
                        alpha::sell(d0 + CDuration::days(1), "X", q, "1", "0"),
                        if unsplit { alpha::unsplit(d0 + CDuration::days(2), "X", m) } else { alpha::split(d0 + CDuration::days(2), "X", m) },
                        alpha::buy(d0 + CDuration::days(3), "X", q, "1", "0"),
                    ];
                    acc.states += 1;
                    acc.validated += 1;
                    acc.bump("window-across-ratio:ledgers");
                    let (_stage, pan) = pipeline_txs(&txs);
                    if let Some((st, msg)) = pan {
                        acc.bump(&format!("panic-kind:{st} panicked: {msg}"));
                        acc.violation(&ctx.findings, "C15", Violation { clause: "panic".into(), input: Input::Ledger(txs.clone()), detail: format!("{st} panicked: {msg}"), context: json!({"profile": "window-across-ratio"}) });
                    }
                }
            }
        }
    }
    validator_table(&ctx, &mut acc);
    cli_fault_menu(&ctx, &mut acc);
    // (f) the converter at the ends of the calendar: every row kind dated within 10 days of the first and last dates
    // the date type holds, of year 0/1 and of year 9999/10000, with and without an awards file
    converter_calendar_ends(&ctx, &mut acc);
    // (g) the converter on every short row sequence (Cancel Sell / Sell / RSU / dividend / withholding / unknown rows in
    // every order), with and without an awards file
    {
        let part = crate::conv::c15_row_sequences(&ctx, if tier == Tier::Quick { 4 } else { 5 });
        eprintln!("  [C15] converter row sequences: {} exports, {} conversions", part.states, part.validated);
        acc = Acc::merge(acc, part);
        ctx.require(acc.get("converter:row-sequences") > 0, "no converter row sequence was run");
        // (h) long exports: 5..100 rows in four row orders with a comment / cancel row at every position
        let part = crate::conv::long_exports(&ctx, "C15");
        eprintln!("  [C15] converter long exports: {} conversions", part.states);
        acc = Acc::merge(acc, part);
        ctx.require(acc.get("converter:long-exports") > 1000, "no long export was converted");
    }
    // (e) the MCP entry point: malformed JSON ledgers with a multi-byte character at every offset around the error site
    crate::mcp::malformed_json_sweep(&ctx, &mut acc, "C15");
    for k in ["tokens:parse-error", "tokens:report", "magnitudes:report", "magnitudes:calculate-error", "validator:cells", "cli-fault-menu:expected-failures", "cli-fault-menu:expected-successes"] {
        ctx.require(acc.get(k) > 0, &format!("nothing reached {k}"));
    }
    ctx.bound = json!({"token_sequences_max_len": l_tok, "token_alphabet": TOKENS.len(), "magnitude_ledgers_max_events": l_mag, "magnitude_event_alphabet": nmag});
    ctx.alphabets.push(json!({"tokens": TOKENS, "magnitudes": magnitudes(), "magnitude_events": "BUY/SELL with (quantity, price) over magnitudes^2 and fees over magnitudes; SPLIT/UNSPLIT ratio, CAPRETURN/ACCUMULATION total, DIVIDEND total and tax over magnitudes; event k dated base+k days", "bases": ["2024-01-10", "0001-01-01", "1900-04-04", "2101-04-05", "9999-12-29"]}));
    ctx.explanation = "(a) every sequence of at most L tokens over a 30-token alphabet (dates, bad dates, every keyword, numbers incl. '1.' '.5' '-1', '@', currencies, '#', LF, CR, space, tab, non-ASCII, NUL, a complete line), joined by single spaces, goes through parse_file -> validate -> calculate -> plain text, JSON and derived getters, each step under catch_unwind, in child processes with a 10 s per-execution watchdog (abort/hang = violation). (b) every ordered ledger of at most k events over the magnitude alphabet {0, 1e-6, 1, 1e6, 1e-28, 1e14, 7.9e28} on every numeric field of every kind, at five calendar positions incl. the ends of the calendar, goes through the same pipeline as Transaction values. (c) CLI fault menu: report x {9 inputs} x {plain,json,pdf} x {stdout, new --output, existing --output, unwritable dir, existing default PDF path} plus parse/convert/--year/--fx-folder cells, one real process per cell: failures exit non-zero, print nothing on stdout, leave output paths byte-identical. (d) validator truth table over every sign pattern of every numeric field of every kind. (f) the Schwab converter on every row kind dated within 10 days of the ends of the date type's range and of years 0/1/9999, plain and 'as of' dates, with and without an awards file: never a panic. (g) the Schwab converter on every multiset of at most 4 (thorough: 5) rows of the C18 row alphabet in every row order, with and without an awards file: never a panic. (e) MCP: 4 kinds of malformed JSON ledger x 3 tools x a multi-byte character at each of 150 offsets before and after the error site, pipelined into real `cgt-tool mcp` sessions: every request must get exactly one error response and the server must live until EOF.".into();
    ctx.assumptions = vec!["PDF rendering of hostile reports is exercised through the CLI cells only (C17 owns PDF content)".into()];
    ctx.finish(&acc, "model_checking")
}
