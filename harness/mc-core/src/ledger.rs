//! Ledger-graph engines. Every engine enumerates ALL ledgers (multisets of events) of a bounded alphabet,
//! executes the real `cgt_core::calculator::calculate` on each, and evaluates an oracle:
//!   C01 matching vs reference model R          C02 share conservation        C03 cost conservation
//!   C05 acceptance ⇔ covered                   C09 independence of securities C10 split twins
//!   C11 capital return / accumulation deltas   C12 finality under later continuations
use crate::{conserve, preds};
use cgt_core::{Config, Currency, CurrencyAmount, Operation, TaxReport, Transaction};
use cgt_money::FxCache;
use chrono::{Datelike, Duration, NaiveDate};
use mcx::alpha::{self, Alphabet, Class, class_of, dsl_text};
use mcx::fxref::{self, RateTable};
use mcx::observe::{self, Diff, Outcome, all_years_config, run_calc};
use mcx::profiles;
use mcx::rat::Rat;
use mcx::refmodel::{RResult, Rule, evaluate, to_rtx};
use mcx::refparse;
use mcx::run::{Acc, Ctx, Input, Tier, Violation, machinery_failure};
use mcx::view::{self, CmpOpts, Level};
use rayon::prelude::*;
use rust_decimal::Decimal;
use serde_json::{Value, json};
use std::collections::BTreeMap;

pub struct Env {
    pub cfg: Config,
    pub fx: FxCache,
    pub rates: RateTable,
}
impl Env {
    pub fn new() -> Env {
        let fx = cgt_money::load_default_cache().unwrap_or_else(|e| machinery_failure(&format!("bundled FX cache does not load: {e}")));
        Env { cfg: all_years_config(), fx, rates: fxref::load_bundled() }
    }
    pub fn calc(&self, txs: &[Transaction]) -> Outcome {
        run_calc(txs, None, Some(&self.fx), &self.cfg)
    }
    pub fn r_of(&self, txs: &[Transaction]) -> RResult {
        let fx = fxref::fx_fn(&self.rates);
        match to_rtx(txs, &fx) {
            Ok(r) => evaluate(&r),
            Err(m) => machinery_failure(&format!("alphabet uses a currency/month without a bundled rate: {m:?}")),
        }
    }
}

/// One oracle observation (a violation candidate).
pub struct Obs {
    pub clause: String,
    pub detail: String,
    pub context: Value,
    /// the input the violation is attributed to, when it is a derived ledger rather than the explored state
    pub input: Option<Vec<Transaction>>,
}
fn ob(clause: &str, detail: String) -> Obs {
    Obs { clause: clause.to_string(), detail, context: Value::Null, input: None }
}
fn obs_from(diffs: Vec<Diff>) -> Vec<Obs> {
    diffs.into_iter().map(|d| ob(d.clause, d.detail)).collect()
}
fn with_ctx(mut v: Vec<Obs>, ctx: Value, input: Option<&[Transaction]>) -> Vec<Obs> {
    for o in &mut v {
        o.context = ctx.clone();
        if o.input.is_none() {
            o.input = input.map(|t| t.to_vec());
        }
    }
    v
}

pub fn validate_reference_model(ctx: &mut Ctx) {
    let rates = fxref::load_bundled();
    let rep = mcx::fixtures::validate_r(&rates);
    if !rep.problems.is_empty() {
        for p in &rep.problems {
            eprintln!("  fixture problem: {p}");
        }
        machinery_failure("reference model R disagrees with the repository's golden fixtures (tests/json)");
    }
    if rep.checked < 25 {
        machinery_failure(&format!("reference model validated on only {} fixtures", rep.checked));
    }
    ctx.extra.insert("reference_model_validation".into(), json!({"golden_fixtures_agreeing": rep.checked, "skipped_capreturn_accumulation": rep.skipped}));
}

fn shape_counters(acc: &mut Acc, txs: &[Transaction], r: &RResult) {
    let mut claims: BTreeMap<(String, NaiveDate), Vec<NaiveDate>> = BTreeMap::new();
    let mut multi_rule = false;
    for d in &r.disposals {
        let mut rules = std::collections::BTreeSet::new();
        for l in &d.legs {
            rules.insert(l.rule);
            match l.rule {
                Rule::SameDay => acc.bump("legs:same-day"),
                Rule::Bnb => {
                    acc.bump("legs:30-day");
                    let e = l.acq.unwrap_or(d.date);
                    claims.entry((d.ticker.clone(), e)).or_default().push(d.date);
                    if (e - d.date).num_days() == 30 {
                        acc.bump("shape:30-day-leg-at-exactly-D+30");
                    }
                    if txs.iter().any(|t| t.ticker == d.ticker && t.date >= d.date && t.date < e && matches!(t.operation, Operation::Split { .. } | Operation::Unsplit { .. })) {
                        acc.bump("shape:30-day-leg-across-split");
                    }
                    if r.disposals.iter().any(|o| o.ticker == d.ticker && o.date == e) {
                        acc.bump("shape:30-day-leg-onto-day-with-own-disposal");
                    }
                }
                Rule::S104 => acc.bump("legs:section-104"),
            }
        }
        if rules.len() >= 2 {
            multi_rule = true;
        }
    }
    if multi_rule {
        acc.bump("shape:disposal-spread-over-several-rules");
    }
    if claims.values().any(|v| v.len() >= 2) {
        acc.bump("shape:several-disposals-claim-one-acquisition-day");
    }
}

fn net_of(op: &Operation<CurrencyAmount>, date: NaiveDate, env: &Env) -> Rat {
    // signed effect on allowable expenditure of an adjustment event, in GBP
    let fx = fxref::fx_fn(&env.rates);
    let conv = |a: &CurrencyAmount| -> Rat {
        let v = Rat::from_dec(a.amount);
        if a.currency == Currency::GBP {
            v
        } else {
            use chrono::Datelike;
            v / fx(a.currency.code(), date.year(), date.month()).unwrap_or_else(|| machinery_failure("missing rate in alphabet"))
        }
    };
    match op {
        Operation::CapReturn { total_value, fees, .. } => -(conv(total_value) - conv(fees)),
        Operation::Accumulation { total_value, .. } => conv(total_value),
        _ => Rat::zero(),
    }
}

/// Σ leg costs + closing cost for a ticker.
fn expenditure_accounted(rep: &TaxReport, tk: &str) -> Rat {
    let mut s = Rat::zero();
    for y in &rep.tax_years {
        for d in y.disposals.iter().filter(|d| d.ticker == tk) {
            for m in &d.matches {
                s += Rat::from_dec(m.allowable_cost);
            }
        }
    }
    for h in rep.holdings.iter().filter(|h| h.ticker == tk) {
        s += Rat::from_dec(h.total_cost);
    }
    s
}

fn tickers_of(txs: &[Transaction]) -> Vec<String> {
    let mut t: Vec<String> = txs.iter().map(|t| t.ticker.clone()).collect();
    t.sort();
    t.dedup();
    t
}

fn is_adj(t: &Transaction) -> bool {
    class_of(t) == Class::Adj
}

// ---------------------------------------------------------------------------------------------- C03
fn oracle_c03(env: &Env, txs: &[Transaction], acc: &mut Acc) -> Vec<Obs> {
    let out = env.calc(txs);
    acc.bump(out.tag());
    let Outcome::Report(rep) = &out else {
        if let Outcome::Panic(m) = &out {
            return vec![ob("panic", format!("calculate panicked: {m}"))];
        }
        return vec![];
    };
    let r = env.r_of(txs);
    if !r.covered() {
        acc.bump("accepted-although-uncovered (left to C05)");
        return vec![];
    }
    acc.validated += 1;
    shape_counters(acc, txs, &r);
    let mut res = vec![];
    let fx = fxref::fx_fn(&env.rates);
    let rtx = to_rtx(txs, &fx).unwrap_or_else(|_| machinery_failure("fx"));
    for tk in tickers_of(txs) {
        let lhs = expenditure_accounted(rep, &tk);
        let mut base = Rat::zero();
        for t in rtx.iter().filter(|t| t.ticker == tk) {
            if let mcx::refmodel::ROp::Buy { q, p, f } = &t.op {
                base += q * p + f;
            }
        }
        let mut mandatory = Rat::zero();
        let mut optional: Vec<Rat> = vec![];
        for t in txs.iter().filter(|t| t.ticker == tk && is_adj(t)) {
            let eff = net_of(&t.operation, t.date, env);
            if r.pos_start(&tk, t.date).is_pos() {
                mandatory += &eff;
                acc.bump("shape:adjustment-while-shares-held");
            } else {
                optional.push(eff);
                acc.bump("shape:adjustment-with-no-shares-held");
            }
        }
        let target = &lhs - &base - &mandatory;
        let k = optional.len();
        let mut ok = false;
        for mask in 0..(1u32 << k) {
            let mut s = Rat::zero();
            for (i, e) in optional.iter().enumerate() {
                if mask & (1 << i) != 0 {
                    s += e;
                }
            }
            if s.close(&target) {
                ok = true;
                break;
            }
        }
        if !ok {
            res.push(ob(
                "cost-not-conserved",
                format!("{tk}: legs' allowable cost + closing cost = {lhs}, but acquisitions cost {base} and adjustments in force sum to {mandatory} (optional, no shares held: {optional:?})"),
            ));
        }
    }
    // no cost under a security that has no transactions
    for h in &rep.holdings {
        if !txs.iter().any(|t| t.ticker == h.ticker) && !Rat::from_dec(h.total_cost).negligible() {
            res.push(ob("cost-moved-to-other-security", format!("holding {} carries cost {} without transactions", h.ticker, h.total_cost)));
        }
    }
    res
}

// ---------------------------------------------------------------------------------------------- C10
fn split_factor_after(txs: &[Transaction], tk: &str, date: NaiveDate) -> Rat {
    let mut f = Rat::one();
    // (a SPLIT/UNSPLIT dated `date` comes before that day's trades, so it is not "after" them)
    for t in txs.iter().filter(|t| t.ticker == tk && t.date > date) {
        match &t.operation {
            Operation::Split { ratio } => f *= &Rat::from_dec(*ratio),
            Operation::Unsplit { ratio } => f = &f / &Rat::from_dec(*ratio),
            _ => {}
        }
    }
    f
}

fn rat_to_dec(r: &Rat) -> Option<Decimal> {
    // exact conversion when r is a finite decimal with <= 20 fractional digits
    for scale in 0..=20u32 {
        let scaled = r * &Rat::from_dec(Decimal::from_i128_with_scale(10i128.pow(scale), 0));
        let s = scaled.show();
        if !s.contains('/') && !s.contains('.') {
            if let Ok(m) = s.parse::<i128>() {
                if m.abs() < 10i128.pow(27) {
                    return Some(Decimal::from_i128_with_scale(m, scale));
                }
            }
            return None;
        }
    }
    None
}

/// The ledger rewritten in final (post-all-splits) units with the split lines removed; None if not exactly representable.
fn rescaled_twin(txs: &[Transaction]) -> Option<Vec<Transaction>> {
    let mut out = vec![];
    for t in txs {
        let f = split_factor_after(txs, &t.ticker, t.date);
        let scale_q = |q: &Decimal| rat_to_dec(&(Rat::from_dec(*q) * &f));
        let scale_p = |p: &CurrencyAmount| rat_to_dec(&(Rat::from_dec(p.amount) / &f)).map(|a| CurrencyAmount::new(a, p.currency));
        let op = match &t.operation {
            Operation::Buy { amount, price, fees } => Operation::Buy { amount: scale_q(amount)?, price: scale_p(price)?, fees: fees.clone() },
            Operation::Sell { amount, price, fees } => Operation::Sell { amount: scale_q(amount)?, price: scale_p(price)?, fees: fees.clone() },
            Operation::CapReturn { amount, total_value, fees } => Operation::CapReturn { amount: scale_q(amount)?, total_value: total_value.clone(), fees: fees.clone() },
            Operation::Accumulation { amount, total_value, tax_paid } => Operation::Accumulation { amount: scale_q(amount)?, total_value: total_value.clone(), tax_paid: tax_paid.clone() },
            Operation::Dividend { .. } => t.operation.clone(),
            Operation::Split { .. } | Operation::Unsplit { .. } => continue,
        };
        out.push(Transaction { date: t.date, ticker: t.ticker.clone(), operation: op });
    }
    Some(out)
}

fn has_split(txs: &[Transaction]) -> bool {
    txs.iter().any(|t| class_of(t) == Class::Corp)
}

fn oracle_c10(env: &Env, txs: &[Transaction], acc: &mut Acc) -> Vec<Obs> {
    let mut res = vec![];
    let out = env.calc(txs);
    acc.bump(out.tag());
    if let Outcome::Panic(m) = &out {
        return vec![ob("panic", format!("calculate panicked: {m}"))];
    }
    // (a) rescaled twin
    if has_split(txs) {
        match rescaled_twin(txs) {
            None => acc.bump("twin-not-exactly-representable (skipped)"),
            Some(twin) => {
                acc.bump("twin-compared");
                acc.validated += 1;
                let tout = env.calc(&twin);
                let ctx = json!({"variant": "rescaled-twin", "twin": dsl_text(&twin)});
                match (&out, &tout) {
                    (Outcome::Report(a), Outcome::Report(b)) => {
                        acc.bump("twin-both-accepted");
                        res.extend(with_ctx(compare_twin(txs, a, b), ctx, None));
                    }
                    (Outcome::Err { .. }, Outcome::Err { .. }) => acc.bump("twin-both-rejected"),
                    (Outcome::Report(_), Outcome::Err { msg, .. }) => res.extend(with_ctx(vec![ob("twin-acceptance", format!("ledger accepted but its rescaled twin is refused: {msg}"))], ctx, None)),
                    (Outcome::Err { msg, .. }, Outcome::Report(_)) => res.extend(with_ctx(vec![ob("twin-acceptance", format!("ledger refused ({msg}) but its rescaled twin is accepted"))], ctx, None)),
                    (_, Outcome::Panic(m)) => res.extend(with_ctx(vec![ob("panic", format!("twin panicked: {m}"))], ctx, None)),
                    (Outcome::Panic(_), _) => {}
                }
            }
        }
    }
    // (b) SPLIT r ; UNSPLIT r on two adjacent free dates changes nothing
    let b = profiles::base();
    for tk in tickers_of(txs) {
        for o in [-30i64, -5, 3, 12, 20, 40] {
            let (d1, d2) = (profiles::off(b, o), profiles::off(b, o + 1));
            if txs.iter().any(|t| t.ticker == tk && (t.date == d1 || t.date == d2)) {
                continue;
            }
            for ratio in ["2", "2.5", "10", "3"] {
                for first_split in [true, false] {
                    // UNSPLIT 3 first would divide by 3 (no finite decimal): that order is C05-F1 territory
                    if ratio == "3" && !first_split {
                        continue;
                    }
                    let mut l2 = txs.to_vec();
                    if first_split {
                        l2.push(alpha::split(d1, &tk, ratio));
                        l2.push(alpha::unsplit(d2, &tk, ratio));
                    } else {
                        l2.push(alpha::unsplit(d1, &tk, ratio));
                        l2.push(alpha::split(d2, &tk, ratio));
                    }
                    l2.sort_by_key(|t| t.date);
                    acc.validated += 1;
                    acc.bump("split-unsplit-pair-inserted");
                    let o2 = env.calc(&l2);
                    let ctx = json!({"variant": "split-unsplit-pair", "ledger_with_pair": dsl_text(&l2)});
                    match (&out, &o2) {
                        (Outcome::Report(a), Outcome::Report(b2)) => {
                            let d = view::diff_reports(&view::view(b2), &view::view(a), Level::L3, &CmpOpts { label_a: "with-pair", label_b: "original", ..Default::default() });
                            let was_empty = d.is_empty();
                            res.extend(with_ctx(obs_from(d).into_iter().map(|mut o| { o.clause = "pair-changes-report".into(); o }).collect(), ctx.clone(), None));
                            // "changes nothing": multiplying by r and dividing by r again is exact in decimal arithmetic,
                            // so share counts must come back identical, not only within the 1e-9 equality
                            if was_empty {
                                for (ha, hb) in a.holdings.iter().zip(b2.holdings.iter()) {
                                    if ha.ticker == hb.ticker && ha.quantity != hb.quantity {
                                        res.extend(with_ctx(vec![ob("pair-changes-report", format!("holding {}: {} shares with SPLIT {ratio} / UNSPLIT {ratio} inserted, {} without", ha.ticker, hb.quantity, ha.quantity))], ctx.clone(), None));
                                    }
                                }
                            }
                        }
                        (Outcome::Err { .. }, Outcome::Err { .. }) => {}
                        (Outcome::Report(_), Outcome::Err { msg, .. }) => res.extend(with_ctx(vec![ob("pair-changes-acceptance", format!("accepted ledger is refused once SPLIT {ratio}/UNSPLIT {ratio} is inserted on {d1},{d2}: {msg}"))], ctx, None)),
                        (Outcome::Err { msg, .. }, Outcome::Report(_)) => res.extend(with_ctx(vec![ob("pair-changes-acceptance", format!("refused ledger ({msg}) is accepted once SPLIT/UNSPLIT {ratio} is inserted on {d1},{d2}"))], ctx, None)),
                        (_, Outcome::Panic(m)) => res.extend(with_ctx(vec![ob("panic", format!("panicked: {m}"))], ctx, None)),
                        (Outcome::Panic(_), _) => {}
                    }
                }
            }
        }
    }
    res
}

fn compare_twin(orig_txs: &[Transaction], a: &TaxReport, b: &TaxReport) -> Vec<Obs> {
    // scale the original's quantities into final units, then compare at L2 (merged legs)
    let mut va = view::view(a);
    for y in &mut va.years {
        for d in &mut y.disposals {
            let f = split_factor_after(orig_txs, &d.ticker, d.date);
            d.qty = &d.qty * &f;
            for l in &mut d.legs {
                l.qty = &l.qty * &f;
            }
        }
    }
    let vb = view::view(b);
    let d = view::diff_reports(&va, &vb, Level::L2, &CmpOpts { label_a: "original(rescaled)", label_b: "twin", ..Default::default() });
    obs_from(d).into_iter().map(|mut o| { o.clause = "twin-figures".into(); o }).collect()
}

// ---------------------------------------------------------------------------------------------- C11
fn without(txs: &[Transaction], i: usize) -> Vec<Transaction> {
    let mut v = txs.to_vec();
    v.remove(i);
    v
}

fn oracle_c11(env: &Env, txs: &[Transaction], acc: &mut Acc) -> Vec<Obs> {
    let mut res = vec![];
    let out = env.calc(txs);
    acc.bump(out.tag());
    if let Outcome::Panic(m) = &out {
        return vec![ob("panic", format!("calculate panicked: {m}"))];
    }
    let r = env.r_of(txs);
    if !r.covered() {
        return res;
    }
    // (iv) no negative cost anywhere in an accepted report
    if let Outcome::Report(rep) = &out {
        acc.validated += 1;
        for y in &rep.tax_years {
            for d in &y.disposals {
                for m in &d.matches {
                    if shown_negative(m.allowable_cost) {
                        res.push(ob("negative-cost", format!("disposal {} {}: leg with allowable cost {}", d.date, d.ticker, m.allowable_cost)));
                    }
                }
            }
        }
        for h in &rep.holdings {
            if shown_negative(h.total_cost) {
                res.push(ob("negative-cost", format!("holding {} with cost {}", h.ticker, h.total_cost)));
            }
        }
    }
    let last_adj_date = txs.iter().filter(|t| is_adj(t)).map(|t| t.date).max();
    for (i, e) in txs.iter().enumerate() {
        let cls = class_of(e);
        if cls != Class::Adj && cls != Class::Div {
            continue;
        }
        let base = without(txs, i);
        let bout = env.calc(&base);
        let ctx = json!({"event": alpha::dsl_line(e), "without_event": dsl_text(&base)});
        let tk = e.ticker.clone();
        if cls == Class::Div {
            // (vi) a cash dividend changes only the dividend totals
            acc.bump("dividend-differential");
            match (&out, &bout) {
                (Outcome::Report(a), Outcome::Report(b)) => {
                    let (mut va, mut vb) = (view::view(a), view::view(b));
                    for y in va.years.iter_mut().chain(vb.years.iter_mut()) {
                        y.div = Rat::zero();
                        y.divtax = Rat::zero();
                    }
                    let d = view::diff_reports(&va, &vb, Level::L3, &CmpOpts { label_a: "with-dividend", label_b: "without", ..Default::default() });
                    // figures (per-disposal quantity, proceeds, cost, gain; year totals; holdings) and the partition of a
                    // disposal into legs are separate clauses
                    res.extend(with_ctx(obs_from(d).into_iter().map(|mut o| { o.clause = if o.clause.starts_with("L1") { "dividend-changes-figures".into() } else { "dividend-changes-leg-partition".into() }; o }).collect(), ctx.clone(), None));
                }
                (Outcome::Err { .. }, Outcome::Err { .. }) => {}
                _ => res.extend(with_ctx(vec![ob("dividend-changes-acceptance", "a DIVIDEND line changes whether the ledger is accepted".into())], ctx.clone(), None)),
            }
            continue;
        }
        let eff = net_of(&e.operation, e.date, env);
        let pos = r.pos_start(&tk, e.date);
        let first_buy = txs.iter().filter(|t| t.ticker == tk && class_of(t) == Class::Buy).map(|t| t.date).min();
        let before_all_acq = first_buy.map(|d| e.date < d).unwrap_or(true);
        let is_capret = matches!(e.operation, Operation::CapReturn { .. });
        if pos.is_pos() {
            acc.bump("adjustment-differential(position>0)");
            // (i) exact shift of total expenditure
            if let (Outcome::Report(a), Outcome::Report(b)) = (&out, &bout) {
                let delta = expenditure_accounted(a, &tk) - expenditure_accounted(b, &tk);
                if !delta.close(&eff) {
                    res.extend(with_ctx(vec![ob("adjustment-amount", format!("{}: Σ leg cost + closing cost moved by {} but the event's net amount is {}", alpha::dsl_line(e), delta, eff))], ctx.clone(), None));
                }
                // never over shares acquired after the event date: legs identified with later acquisitions keep their cost
                let (va, vb) = (view::view(a), view::view(b));
                let da: Vec<&view::DV> = va.years.iter().flat_map(|y| y.disposals.iter()).collect();
                let db: Vec<&view::DV> = vb.years.iter().flat_map(|y| y.disposals.iter()).collect();
                for x in &da {
                    if let Some(y) = db.iter().find(|y| y.date == x.date && y.ticker == x.ticker) {
                        let (mx, my) = (x.merged(), y.merged());
                        for (k, vx) in &mx {
                            if let (Some(acq), Some(vy)) = (k.1, my.get(k)) {
                                if acq > e.date && x.ticker == tk && vx.0.close(&vy.0) && !vx.1.close(&vy.1) {
                                    res.extend(with_ctx(vec![ob("adjustment-reaches-later-acquisition", format!("disposal {} {}: leg identified with the acquisition of {} costs {} with the event and {} without, although the event is dated {}", x.date, x.ticker, acq, vx.1, vy.1, e.date))], ctx.clone(), None));
                                }
                            }
                        }
                    }
                }
                // other securities untouched
                for otk in tickers_of(txs).into_iter().filter(|o| *o != tk) {
                    if !expenditure_accounted(a, &otk).close(&expenditure_accounted(b, &otk)) {
                        res.extend(with_ctx(vec![ob("adjustment-reaches-other-security", format!("expenditure of {otk} changes with an event on {tk}"))], ctx.clone(), None));
                    }
                }
            }
            // (v) refusal brackets, only for the last adjustment event of the ledger (no later event depends on it)
            if is_capret && Some(e.date) == last_adj_date && txs.iter().filter(|t| is_adj(t) && t.date == e.date).count() == 1 {
                if let Outcome::Report(_) = &bout {
                    let net = -eff.clone();
                    let earlier_returns: Rat = txs.iter().filter(|t| t.ticker == tk && t.date < e.date && matches!(t.operation, Operation::CapReturn { .. })).map(|t| -net_of(&t.operation, t.date, env)).sum();
                    let pool_cost = r.traces.get(&tk).and_then(|tr| tr.iter().find(|d| d.date == e.date)).map(|d| d.pool_start.1.clone()).unwrap_or_default();
                    let lower = pool_cost - earlier_returns;
                    let fxf = fxref::fx_fn(&env.rates);
                    let rtx = to_rtx(txs, &fxf).unwrap_or_else(|_| machinery_failure("fx"));
                    let mut ever = Rat::zero();
                    for t in rtx.iter().filter(|t| t.ticker == tk) {
                        match &t.op {
                            mcx::refmodel::ROp::Buy { q, p, f } => ever += q * p + f,
                            mcx::refmodel::ROp::Accum { total } => ever += total,
                            _ => {}
                        }
                    }
                    // expenditure incurred since the holding was last empty: under every reading, shares held now
                    // were acquired after that moment, so a return above it can never be absorbed
                    let last_zero = r.traces.get(&tk).and_then(|tr| tr.iter().filter(|d| d.date < e.date && d.pos_end.is_zero()).map(|d| d.date).max());
                    let mut since = Rat::zero();
                    for t in rtx.iter().filter(|t| t.ticker == tk && t.date < e.date && last_zero.map(|z| t.date > z).unwrap_or(true)) {
                        match &t.op {
                            mcx::refmodel::ROp::Buy { q, p, f } => since += q * p + f,
                            mcx::refmodel::ROp::Accum { total } => since += total,
                            _ => {}
                        }
                    }
                    let ever = if last_zero.is_some() { since } else { ever };
                    // (the must-accept bracket is only sound where every reading agrees on what the pool holds: the
                    // tool's cost pre-pass deliberately ignores 30-day identification, so it is applied to ledgers
                    // without 30-day legs only)
                    let has_bnb = r.disposals.iter().any(|d| d.ticker == tk && d.legs.iter().any(|l| l.rule == Rule::Bnb));
                    if net <= lower && !has_bnb && readings_agree(txs, &tk, e.date) {
                        acc.bump("bracket:return-absorbable");
                        if let Outcome::Err { msg, .. } = &out {
                            res.extend(with_ctx(vec![ob("absorbable-return-refused", format!("{}: net return {} does not exceed the pool's remaining expenditure {} yet the run fails: {msg}", alpha::dsl_line(e), net, lower))], ctx.clone(), None));
                        }
                    } else if net > ever {
                        acc.bump("bracket:return-exceeds-all-expenditure");
                        match &out {
                            Outcome::Report(_) => res.extend(with_ctx(vec![ob("excess-return-accepted", format!("{}: net return {} exceeds all expenditure ever incurred ({}) yet a report is produced", alpha::dsl_line(e), net, ever))], ctx.clone(), None)),
                            Outcome::Err { msg, .. } => {
                                if !(msg.contains("S122") || msg.contains("s122")) {
                                    res.extend(with_ctx(vec![ob("excess-return-error-text", format!("refusal does not cite S122: {msg}"))], ctx.clone(), None));
                                }
                            }
                            Outcome::Panic(_) => {}
                        }
                    } else {
                        acc.bump("bracket:in-between");
                    }
                }
            }
        } else if before_all_acq {
            // (ii) an event dated before every acquisition is without effect (a capital return may instead be refused)
            acc.bump("adjustment-before-any-acquisition");
            match (&out, &bout) {
                (Outcome::Report(a), Outcome::Report(b)) => {
                    let d = view::diff_reports(&view::view(a), &view::view(b), Level::L3, &CmpOpts { label_a: "with-event", label_b: "without", ..Default::default() });
                    res.extend(with_ctx(obs_from(d).into_iter().map(|mut o| { o.clause = "early-event-changes-figures".into(); o }).collect(), ctx.clone(), None));
                }
                (Outcome::Err { .. }, Outcome::Report(_)) if !is_capret => {
                    res.extend(with_ctx(vec![ob("early-event-changes-acceptance", "an ACCUMULATION dated before every acquisition makes the run fail".into())], ctx.clone(), None));
                }
                (Outcome::Report(_), Outcome::Err { .. }) => {
                    res.extend(with_ctx(vec![ob("early-event-changes-acceptance", "an event dated before every acquisition makes a refused ledger accepted".into())], ctx.clone(), None));
                }
                _ => {}
            }
        }
    }
    // (iii) an accumulation and a capital return of equal net amount on one date cancel (when shares are held)
    if let Outcome::Report(a) = &out {
        let b = profiles::base();
        for tk in tickers_of(txs) {
            for o in [-35i64, -12, 4, 9, 25, 50] {
                let d = profiles::off(b, o);
                if txs.iter().any(|t| t.ticker == tk && t.date == d) {
                    continue;
                }
                // position at d in R: evaluate on a ledger with a zero-effect marker is unnecessary; use traces
                let pos = position_at(&r, &tk, d);
                if !pos.is_pos() {
                    continue;
                }
                // the return must be absorbable under every reading: skip when the pool lower bound is below it
                for (order, large) in [(0, false), (1, false), (0, true), (1, true)] {
                    let mut l2 = txs.to_vec();
                    // small pair: absorbable by most pools on its own; large pair: far above any expenditure of the
                    // alphabets, so the return fits only because the same-date accumulation offsets it
                    let (x, y) = if large { (alpha::accum(d, &tk, "1", "5000", "0"), alpha::capret(d, &tk, "1", "5001", "1")) } else { (alpha::accum(d, &tk, "1", "4", "0"), alpha::capret(d, &tk, "1", "5", "1")) };
                    if order == 0 {
                        l2.push(x);
                        l2.push(y);
                    } else {
                        l2.push(y);
                        l2.push(x);
                    }
                    l2.sort_by_key(|t| t.date);
                    let o2 = env.calc(&l2);
                    acc.bump("cancelling-pair-inserted");
                    acc.validated += 1;
                    let ctx = json!({"variant": if large { "ACCUMULATION 5000 + CAPRETURN 5001 FEES 1 on one date" } else { "ACCUMULATION 4 + CAPRETURN 5 FEES 1 on one date" }, "ledger_with_pair": dsl_text(&l2)});
                    match &o2 {
                        Outcome::Report(b2) => {
                            let dd = view::diff_reports(&view::view(b2), &view::view(a), Level::L3, &CmpOpts { label_a: "with-pair", label_b: "original", ..Default::default() });
                            res.extend(with_ctx(obs_from(dd).into_iter().map(|mut o| { o.clause = "equal-accumulation-and-return-do-not-cancel".into(); o }).collect(), ctx, None));
                        }
                        Outcome::Err { msg, .. } => {
                            // only a violation if the return is certainly absorbable: pool lower bound >= 4 (+4 from the accumulation when it comes first)
                            let pool_cost = pool_cost_at(&r, &tk, d);
                            let earlier_returns: Rat = txs.iter().filter(|t| t.ticker == tk && t.date < d && matches!(t.operation, Operation::CapReturn { .. })).map(|t| -net_of(&t.operation, t.date, env)).sum();
                            let has_bnb = r.disposals.iter().any(|d| d.ticker == tk && d.legs.iter().any(|l| l.rule == Rule::Bnb));
                            // (the large pair is absorbable under every reading when nothing was sold before it: the tool
                            // spreads a lot's adjustment over the lot's original quantity — pinned by its golden files,
                            // DESIGN §12.2 "not checked, by decision" — so after a sale part of the accumulation sits on
                            // shares no longer held and "the expenditure remaining on the shares held" is reading-dependent)
                            let sold_before = txs.iter().any(|t| t.ticker == tk && t.date < d && matches!(t.operation, Operation::Sell { .. }));
                            if (large && !sold_before) || (!large && pool_cost - earlier_returns >= Rat::int(4) && !has_bnb && readings_agree(txs, &tk, d)) {
                                res.extend(with_ctx(vec![ob("equal-accumulation-and-return-do-not-cancel", format!("inserting the cancelling pair makes the run fail: {msg}"))], ctx, None));
                            }
                        }
                        Outcome::Panic(m) => res.extend(with_ctx(vec![ob("panic", format!("panicked: {m}"))], ctx, None)),
                    }
                }
            }
        }
    }
    res
}

/// "Expenditure remaining on the shares held" is the Section 104 pool's average-cost remainder in R, but the cost of
/// the specific lots left after first-in-first-out consumption in the tool's pre-pass. The two coincide when nothing
/// was sold before the event or when a single purchase precedes it; only then is "must be accepted" reading-independent.
fn readings_agree(txs: &[Transaction], tk: &str, event: NaiveDate) -> bool {
    let sells = txs.iter().filter(|t| t.ticker == tk && t.date < event && matches!(t.operation, Operation::Sell { .. })).count();
    let buys = txs.iter().filter(|t| t.ticker == tk && t.date < event && matches!(t.operation, Operation::Buy { .. })).count();
    sells == 0 || buys <= 1
}

/// R's position at the start of an arbitrary date (not necessarily an event date).
fn position_at(r: &RResult, tk: &str, d: NaiveDate) -> Rat {
    let Some(tr) = r.traces.get(tk) else { return Rat::zero() };
    // last trace day strictly before d: pos_end * ratio == next day's pos_start; find first trace day >= d
    if let Some(t) = tr.iter().find(|t| t.date >= d) {
        return t.pos_start.clone();
    }
    // after the last day: closing holding
    r.holdings.iter().find(|h| h.ticker == tk).map(|h| h.qty.clone()).unwrap_or_default()
}
fn pool_cost_at(r: &RResult, tk: &str, d: NaiveDate) -> Rat {
    let Some(tr) = r.traces.get(tk) else { return Rat::zero() };
    if let Some(t) = tr.iter().find(|t| t.date >= d) {
        return t.pool_start.1.clone();
    }
    r.holdings.iter().find(|h| h.ticker == tk).map(|h| h.cost.clone()).unwrap_or_default()
}

// ---------------------------------------------------------------------------------------------- C09
fn oracle_c09(env: &Env, txs: &[Transaction], acc: &mut Acc) -> Vec<Obs> {
    let mut res = vec![];
    let tks = tickers_of(txs);
    if tks.len() < 2 {
        return res;
    }
    let out = env.calc(txs);
    acc.bump(out.tag());
    if let Outcome::Panic(m) = &out {
        return vec![ob("panic", format!("calculate panicked: {m}"))];
    }
    acc.validated += 1;
    let mut singles: Vec<(String, Vec<Transaction>, Outcome)> = vec![];
    for tk in &tks {
        let l: Vec<Transaction> = txs.iter().filter(|t| &t.ticker == tk).cloned().collect();
        let o = env.calc(&l);
        singles.push((tk.clone(), l, o));
    }
    let all_ok = singles.iter().all(|s| matches!(s.2, Outcome::Report(_)));
    match &out {
        Outcome::Report(rep) => {
            if !all_ok {
                res.push(ob("independence-acceptance", "the combined ledger is accepted although one security's transactions alone are refused".into()));
                return res;
            }
            acc.bump("combined-vs-singles-compared");
            let vall = view::view(rep);
            let mut sum_by_year: BTreeMap<i32, (Rat, Rat, Rat, Rat, usize)> = BTreeMap::new();
            for (tk, _l, o) in &singles {
                let Outcome::Report(srep) = o else { continue };
                let vs = view::view(srep);
                // disposals of tk
                let da: Vec<&view::DV> = vall.years.iter().flat_map(|y| y.disposals.iter()).filter(|d| &d.ticker == tk).collect();
                let db: Vec<&view::DV> = vs.years.iter().flat_map(|y| y.disposals.iter()).collect();
                if da.len() != db.len() || da.iter().zip(db.iter()).any(|(x, y)| x.date != y.date) {
                    res.push(ob("independence-disposals", format!("{tk}: disposals in the combined report {:?} vs alone {:?}", da.iter().map(|d| d.date).collect::<Vec<_>>(), db.iter().map(|d| d.date).collect::<Vec<_>>())));
                } else {
                    // two SELL lines of one security on one day: the leg partition and each leg's share of the
                    // proceeds follow the line order (open finding C06-F2); compare figures and legs' (rule, date,
                    // quantity, cost) then, the literal leg lists otherwise
                    let multi_sell = txs.iter().enumerate().any(|(i, x)| matches!(x.operation, Operation::Sell { .. }) && txs.iter().skip(i + 1).any(|y| matches!(y.operation, Operation::Sell { .. }) && y.date == x.date && y.ticker == x.ticker));
                    let mut dd = vec![];
                    for (x, y) in da.iter().zip(db.iter()) {
                        if multi_sell {
                            view::diff_disposal(x, y, Level::L1, "combined", "alone", &mut dd);
                            let (mx, my) = (x.merged(), y.merged());
                            let keys: std::collections::BTreeSet<_> = mx.keys().chain(my.keys()).cloned().collect();
                            for k in keys {
                                let z = (Rat::zero(), Rat::zero(), Rat::zero());
                                let (a, b) = (mx.get(&k).unwrap_or(&z), my.get(&k).unwrap_or(&z));
                                if !a.0.close(&b.0) || !a.1.close(&b.1) {
                                    dd.push(Diff { clause: "L2", detail: format!("disposal {} {}: leg {:?}/{:?} combined=(q {}, cost {}) alone=(q {}, cost {})", x.date, x.ticker, k.0, k.1, a.0, a.1, b.0, b.1) });
                                }
                            }
                        } else {
                            view::diff_disposal(x, y, Level::L3, "combined", "alone", &mut dd);
                        }
                    }
                    res.extend(obs_from(dd).into_iter().map(|mut o| { o.clause = "independence-disposals".into(); o }));
                }
                let z = (Rat::zero(), Rat::zero());
                let (ha, hb) = (vall.holdings.get(tk).unwrap_or(&z), vs.holdings.get(tk).unwrap_or(&z));
                if !ha.0.close(&hb.0) || !ha.1.close(&hb.1) {
                    res.push(ob("independence-holdings", format!("{tk}: holding combined ({}, {}) vs alone ({}, {})", ha.0, ha.1, hb.0, hb.1)));
                }
                for y in &vs.years {
                    let e = sum_by_year.entry(y.year).or_default();
                    e.0 += &y.gain;
                    e.1 += &y.loss;
                    e.2 += &y.div;
                    e.3 += &y.divtax;
                    e.4 += y.count;
                }
            }
            for y in &vall.years {
                let z = (Rat::zero(), Rat::zero(), Rat::zero(), Rat::zero(), 0usize);
                let s = sum_by_year.get(&y.year).unwrap_or(&z);
                if !y.gain.close(&s.0) || !y.loss.close(&s.1) || y.count != s.4 {
                    res.push(ob("independence-year-totals", format!("tax year {}: combined gain/loss/count {}/{}/{} vs sum of singles {}/{}/{}", y.year, y.gain, y.loss, y.count, s.0, s.1, s.4)));
                }
            }
        }
        Outcome::Err { msg, .. } => {
            if all_ok {
                res.push(ob("independence-acceptance", format!("each security alone is accepted but the combined ledger is refused: {msg}")));
            }
        }
        Outcome::Panic(_) => {}
    }
    // reversed line order gives the same report (interleaving on shared dates)
    let mut rev = txs.to_vec();
    rev.reverse();
    let orev = env.calc(&rev);
    match (&out, &orev) {
        (Outcome::Report(a), Outcome::Report(b)) => {
            let multi_sell = txs.iter().enumerate().any(|(i, x)| matches!(x.operation, Operation::Sell { .. }) && txs.iter().skip(i + 1).any(|y| matches!(y.operation, Operation::Sell { .. }) && y.date == x.date && y.ticker == x.ticker));
            let d = view::diff_reports(&view::view(b), &view::view(a), if multi_sell { Level::L1 } else { Level::L3 }, &CmpOpts { label_a: "reversed", label_b: "canonical", ..Default::default() });
            res.extend(with_ctx(obs_from(d).into_iter().map(|mut o| { o.clause = "interleaving-order".into(); o }).collect(), json!({"variant": "reversed line order"}), None));
        }
        (Outcome::Err { .. }, Outcome::Err { .. }) => {}
        _ => res.push(ob("interleaving-order", "reversing the line order changes whether the ledger is accepted".into())),
    }
    res
}

// ---------------------------------------------------------------------------------------------- C12
/// "Reported with negative allowable cost": every front-end shows money rounded to pence, midpoints away from zero
/// (C17), so a cost is reported as negative exactly when that rounding is below zero (-0.004 is shown as £0.00,
/// -0.005 as -£0.01).
fn shown_negative(cost: Decimal) -> bool {
    cost.round_dp_with_strategy(2, rust_decimal::RoundingStrategy::MidpointAwayFromZero) < Decimal::ZERO
}

fn suffix_events(tk: &str, t: NaiveDate) -> Vec<Transaction> {
    let mut v = vec![];
    // T+31, T+32, T+45, and the two sides of the next tax-year boundary that lies more than 30 days after T
    let mut dates: Vec<NaiveDate> = [31i64, 32, 45].iter().map(|o| t + Duration::days(*o)).collect();
    let first = t + Duration::days(31);
    let mut y = first.year();
    let (apr5, apr6) = loop {
        let a5 = alpha::date(y, 4, 5);
        if a5 >= first {
            break (a5, alpha::date(y, 4, 6));
        }
        y += 1;
    };
    for d in [apr5, apr6] {
        if !dates.contains(&d) {
            dates.push(d);
        }
    }
    for (i, d) in dates.into_iter().enumerate() {
        v.push(alpha::buy(d, tk, "7", &format!("{}", 30 + i), "1"));
        v.push(alpha::sell(d, tk, "3", &format!("{}", 40 + i), "0.5"));
        v.push(alpha::sell(d, tk, "99", &format!("{}", 41 + i), "0"));
        v.push(alpha::split(d, tk, "2"));
        v.push(alpha::unsplit(d, tk, "2"));
        v.push(alpha::dividend(d, tk, "3", "1"));
    }
    v
}

/// `growth` continuations (C12pad): the file simply grows by k lines dated more than 30 days after the prefix — k
/// DIVIDEND lines of a security the prefix does not know, or k purchases of the prefix's first security — for a range
/// of k, so that anything that depends on the *length* or position of the later part of the ledger (a search over the
/// sorted list, a capacity, an index) is exercised, not only what depends on the kind of the appended event.
fn growth_suffixes(prefix: &[Transaction], t_last: NaiveDate) -> Vec<Vec<Transaction>> {
    let mut out = vec![];
    let first_tk = tickers_of(prefix).into_iter().next().unwrap_or_else(|| "X".to_string());
    // up to 40 lines: library sort routines switch algorithm at 20 and again around 32 elements
    for k in [1usize, 2, 3, 4, 5, 6, 8, 12, 16, 20, 24, 28, 32, 40] {
        out.push((0..k).map(|i| alpha::dividend(t_last + Duration::days(31 + i as i64), "ZZ", "3", "1")).collect());
        out.push((0..k).map(|i| alpha::buy(t_last + Duration::days(40 + 2 * i as i64), &first_tk, "7", &format!("{}", 30 + i), "1")).collect());
    }
    out
}

fn oracle_c12(env: &Env, prefix: &[Transaction], acc: &mut Acc, max_suffix: usize, trades_only: bool) -> Vec<Obs> {
    let mut res = vec![];
    if prefix.is_empty() {
        return res;
    }
    let pout = env.calc(prefix);
    acc.bump(&format!("prefix-{}", pout.tag()));
    let Outcome::Report(prep) = &pout else { return res };
    let t_last = prefix.iter().map(|t| t.date).max().unwrap_or_else(profiles::base);
    let vp = view::view(prep);
    let pdisp: Vec<&view::DV> = vp.years.iter().flat_map(|y| y.disposals.iter()).collect();
    // suffix alphabet over all tickers of the prefix
    let mut sev = vec![];
    for tk in tickers_of(prefix) {
        sev.extend(suffix_events(&tk, t_last));
    }
    if trades_only {
        sev.retain(|t| match &t.operation {
            Operation::Buy { .. } => true,
            Operation::Sell { amount, .. } => *amount < Decimal::from(50),
            _ => false,
        });
    }
    let sa = Alphabet::new("suffix", sev, alpha::Rules::STRICT);
    let mut seqs: Vec<Vec<usize>> = vec![];
    for i in 0..sa.evs.len() {
        seqs.push(vec![i]);
        if max_suffix >= 2 {
            for j in i..sa.evs.len() {
                if !sa.conflict[i][j] {
                    seqs.push(vec![i, j]);
                }
            }
        }
    }
    let suffixes: Vec<Vec<Transaction>> = if max_suffix == 0 { growth_suffixes(prefix, t_last) } else { seqs.iter().map(|s| sa.ledger(s)).collect() };
    if max_suffix == 0 {
        acc.bump("growth-continuations-run");
    }
    // two layouts of the same extension: the later lines appended after the existing ones, or placed before them
    // (newest first, or the new year's file named first on the command line)
    for (suffix, later_lines_first) in suffixes.into_iter().flat_map(|s| [(s.clone(), false), (s, true)]) {
        let full: Vec<Transaction> = if later_lines_first { suffix.iter().cloned().chain(prefix.iter().cloned()).collect() } else { prefix.iter().cloned().chain(suffix.iter().cloned()).collect() };
        acc.validated += 1;
        acc.bump("transitions");
        if later_lines_first {
            acc.bump("transitions:later-lines-placed-first");
        }
        let fout = env.calc(&full);
        let ctx = json!({"suffix": dsl_text(&suffix), "layout": if later_lines_first { "later lines first" } else { "appended" }});
        match &fout {
            Outcome::Report(frep) => {
                acc.bump("extension-accepted");
                let vf = view::view(frep);
                let fdisp: Vec<&view::DV> = vf.years.iter().flat_map(|y| y.disposals.iter()).collect();
                let mut dd = vec![];
                for pd in &pdisp {
                    match fdisp.iter().find(|d| d.date == pd.date && d.ticker == pd.ticker) {
                        None => dd.push(Diff { clause: "earlier-disposal-changed", detail: format!("disposal {} {} disappears when later transactions are appended", pd.date, pd.ticker) }),
                        Some(fd) => view::diff_disposal(fd, pd, Level::L3, "extended", "prefix", &mut dd),
                    }
                }
                // year totals of years whose disposals are all the prefix's
                for py in &vp.years {
                    if let Some(fy) = vf.years.iter().find(|y| y.year == py.year) {
                        // a year into which no appended sale falls (6-April rule, computed here from the dates) is final
                        let gains_sale = suffix.iter().any(|t| matches!(t.operation, Operation::Sell { .. }) && mcx::refmodel::tax_year_of(t.date) == py.year);
                        if !gains_sale && fy.disposals.len() != py.disposals.len() {
                            dd.push(Diff { clause: "earlier-year-totals-changed", detail: format!("tax year {} lists {} disposals instead of {} although no appended sale is dated in it", py.year, fy.disposals.len(), py.disposals.len()) });
                        }
                        if (!gains_sale || fy.disposals.len() == py.disposals.len()) && (!fy.gain.close(&py.gain) || !fy.loss.close(&py.loss) || !fy.net.close(&py.net)) {
                            dd.push(Diff { clause: "earlier-year-totals-changed", detail: format!("tax year {} totals change from {}/{} to {}/{}", py.year, py.gain, py.loss, fy.gain, fy.loss) });
                        }
                    } else {
                        dd.push(Diff { clause: "earlier-year-totals-changed", detail: format!("tax year {} disappears", py.year) });
                    }
                }
                res.extend(with_ctx(obs_from(dd).into_iter().map(|mut o| { if o.clause.starts_with('L') { o.clause = "earlier-disposal-changed".into(); } o }).collect(), ctx, Some(&full)));
            }
            Outcome::Err { msg, .. } => {
                acc.bump("extension-rejected");
                let r = env.r_of(&full);
                let s_dates: Vec<String> = suffix.iter().map(|t| t.date.format("%Y-%m-%d").to_string()).collect();
                let uncovered_in_suffix = r.uncovered.iter().any(|(_, d)| *d > t_last);
                if !uncovered_in_suffix {
                    res.extend(with_ctx(vec![ob("extension-rejected-without-cause", format!("prefix accepted, every appended sale is covered, yet the extended ledger is refused: {msg}"))], ctx, Some(&full)));
                } else if !s_dates.iter().any(|d| msg.contains(d)) {
                    res.extend(with_ctx(vec![ob("extension-rejected-for-earlier-period", format!("the refusal does not name an appended date: {msg}"))], ctx, Some(&full)));
                }
            }
            Outcome::Panic(m) => res.extend(with_ctx(vec![ob("panic", format!("panicked: {m}"))], ctx, Some(&full))),
        }
    }
    res
}

// ---------------------------------------------------------------------------------------------- C01/C02/C05
fn oracle_c01(env: &Env, txs: &[Transaction], acc: &mut Acc) -> Vec<Obs> {
    let r = env.r_of(txs);
    let out = env.calc(txs);
    acc.bump(out.tag());
    match &out {
        Outcome::Report(rep) => {
            if r.covered() {
                acc.validated += 1;
                shape_counters(acc, txs, &r);
                obs_from(observe::compare_matching(rep, &r, !r.has_adjustments))
            } else {
                acc.bump("accepted-although-uncovered (left to C05)");
                vec![]
            }
        }
        Outcome::Err { .. } => vec![],
        Outcome::Panic(m) => vec![ob("panic", format!("calculate panicked: {m}"))],
    }
}
fn oracle_c02(env: &Env, txs: &[Transaction], acc: &mut Acc) -> Vec<Obs> {
    let out = env.calc(txs);
    acc.bump(out.tag());
    match &out {
        Outcome::Report(rep) => {
            acc.validated += 1;
            let r = env.r_of(txs);
            if r.covered() {
                shape_counters(acc, txs, &r);
            }
            obs_from(conserve::check(txs, rep))
        }
        Outcome::Err { .. } => vec![],
        Outcome::Panic(m) => vec![ob("panic", format!("calculate panicked: {m}"))],
    }
}
fn oracle_c05(env: &Env, txs: &[Transaction], acc: &mut Acc) -> Vec<Obs> {
    let r = env.r_of(txs);
    let out = env.calc(txs);
    acc.bump(out.tag());
    acc.validated += 1;
    let mut diffs = vec![];
    match &out {
        Outcome::Report(_) => {
            if !r.covered() {
                acc.bump("shape:uncovered");
                diffs.push(ob("uncovered-ledger-accepted", format!("a report was produced although sales are not covered at {:?}", r.uncovered)));
            } else {
                acc.bump("covered-and-accepted");
            }
        }
        Outcome::Err { msg, .. } => {
            if r.covered() {
                diffs.push(ob("covered-ledger-refused", format!("every sale is covered but the run failed: {msg}")));
            } else {
                acc.bump("shape:uncovered");
                acc.bump("uncovered-and-refused");
                let named = r.uncovered.iter().any(|(tk, d)| msg.contains(tk.as_str()) && msg.contains(&d.format("%Y-%m-%d").to_string()));
                if !named {
                    diffs.push(ob("error-does-not-name-sale", format!("uncovered sales at {:?} but the error is: {msg}", r.uncovered)));
                }
            }
        }
        Outcome::Panic(m) => diffs.push(ob("panic", format!("calculate panicked: {m}"))),
    }
    diffs
}

pub fn oracle(prop: &str, env: &Env, txs: &[Transaction], acc: &mut Acc, tier: Tier) -> Vec<Obs> {
    acc.states += 1;
    match prop {
        "C01" => oracle_c01(env, txs, acc),
        "C02" => oracle_c02(env, txs, acc),
        "C03" => oracle_c03(env, txs, acc),
        "C05" => {
            // the canonical line order keeps rows of one (date, security) adjacent; duplicated rows from overlapping
            // export chunks are not, so the same ledger is also run in an interleaved line order
            let mut v = oracle_c05(env, txs, acc);
            for il in profiles::other_orders(txs) {
                acc.bump("interleaved-line-order-also-run");
                let mut a2 = Acc::new();
                let v2 = oracle_c05(env, &il, &mut a2);
                acc.validated += 1;
                v.extend(with_ctx(v2, json!({"variant": "interleaved line order", "ledger_as_run": dsl_text(&il)}), None));
            }
            v
        }
        "C09" => oracle_c09(env, txs, acc),
        "C10" => oracle_c10(env, txs, acc),
        "C11" => oracle_c11(env, txs, acc),
        // a DIVIDEND line inserted at every position of the ledger as written (between any two lines, before the
        // first, after the last), dated and named like its neighbour: only the dividend totals may change
        "C11div" => {
            let mut v = vec![];
            if txs.is_empty() {
                return v;
            }
            for g in 0..=txs.len() {
                let nb = if g > 0 { &txs[g - 1] } else { &txs[0] };
                let mut with: Vec<Transaction> = txs[..g].to_vec();
                with.push(alpha::dividend(nb.date, &nb.ticker, "3", "1"));
                with.extend_from_slice(&txs[g..]);
                acc.bump("dividend-line-inserted");
                acc.bump("transitions");
                let mut a2 = Acc::new();
                let obs: Vec<Obs> = oracle_c11(env, &with, &mut a2).into_iter().filter(|o| o.clause.starts_with("dividend-") || o.clause == "panic").collect();
                acc.validated += 1;
                v.extend(with_ctx(obs, json!({"variant": "dividend line inserted", "ledger_as_run": dsl_text(&with)}), Some(&with)));
            }
            v
        }
        "C12" => oracle_c12(env, txs, acc, if tier == Tier::Quick { 1 } else { 2 }, false),
        // two-line continuations (purchases and sales only) of prefixes that are also run in their other line orders
        "C12deep" => oracle_c12(env, txs, acc, 2, true),
        // the file grows by 1..40 lines (max_suffix 0 selects the growth continuations), prefixes in every line order
        "C12pad" => oracle_c12(env, txs, acc, 0, false),
        other => machinery_failure(&format!("ledger::oracle has no clause set for {other}")),
    }
}

fn visit(prop: &str, ctx: &Ctx, env: &Env, acc: &mut Acc, txs: &[Transaction], profile: &str) {
    // conservation / arithmetic laws hold in every line order: also run an order in which rows of one
    // (date, security, kind) are not adjacent (the canonical order keeps them adjacent, where the tool merges them)
    if matches!(prop, "C01" | "C02" | "C03" | "C09" | "C11" | "C11div" | "C12deep" | "C12pad") {
        for il in profiles::other_orders(txs) {
            acc.bump("interleaved-line-order-also-run");
            visit_one(prop, ctx, env, acc, &il, profile);
        }
    }
    visit_one(prop, ctx, env, acc, txs, profile);
}

fn visit_one(prop: &str, ctx: &Ctx, env: &Env, acc: &mut Acc, txs: &[Transaction], profile: &str) {
    let obs = oracle(prop, env, txs, acc, ctx.tier);
    acc.sample(txs.len(), || json!({"profile": profile, "ledger": dsl_text(txs)}));
    for o in obs {
        let mut c = o.context;
        if c.is_null() {
            c = json!({});
        }
        c["profile"] = json!(profile);
        if o.input.is_some() {
            c["explored_state"] = json!(dsl_text(txs));
        }
        let input = Input::Ledger(o.input.unwrap_or_else(|| txs.to_vec()));
        acc.violation(&ctx.findings, if prop.starts_with("C12") { "C12" } else if prop.starts_with("C11") { "C11" } else { prop }, Violation { clause: o.clause, input, detail: o.detail, context: c });
    }
}

fn explore_alpha(prop: &str, ctx: &mut Ctx, env: &Env, a: &Alphabet, n: usize, total: &mut Acc) {
    let t0 = std::time::Instant::now();
    let ctx_ref: &Ctx = ctx;
    let acc = a.explore(n, Acc::new, |acc, idx| visit(prop, ctx_ref, env, acc, &a.ledger(idx), &a.name), Acc::merge);
    eprintln!("  [{prop}] profile {} N<={} : {} states in {:.1}s", a.name, n, acc.states, t0.elapsed().as_secs_f64());
    let mut d = a.describe();
    d["max_events"] = json!(n);
    d["states"] = json!(acc.states);
    ctx.alphabets.push(d);
    let merged = Acc::merge(std::mem::take(total), acc);
    *total = merged;
}

fn explore_list(prop: &str, ctx: &mut Ctx, env: &Env, name: &str, ledgers: Vec<Vec<Transaction>>, total: &mut Acc, desc: &str) {
    let t0 = std::time::Instant::now();
    let ctx_ref: &Ctx = ctx;
    let acc = ledgers
        .par_iter()
        .fold(Acc::new, |mut acc, l| {
            visit(prop, ctx_ref, env, &mut acc, l, name);
            acc
        })
        .reduce(Acc::new, Acc::merge);
    eprintln!("  [{prop}] profile {} : {} states in {:.1}s", name, acc.states, t0.elapsed().as_secs_f64());
    ctx.alphabets.push(json!({"name": name, "states": acc.states, "description": desc}));
    let merged = Acc::merge(std::mem::take(total), acc);
    *total = merged;
}

/// `calendar`: BUY(D-100), SELL(D), BUY(D+g) for every D in [from, to] and g in {-1,0,1,29,30,31,32}.
fn calendar_ledgers(from: NaiveDate, to: NaiveDate) -> Vec<Vec<Transaction>> {
    let mut out = vec![];
    let mut d = from;
    while d <= to {
        for g in [-1i64, 0, 1, 29, 30, 31, 32] {
            out.push(vec![alpha::buy(d - Duration::days(100), "X", "10", "10", "1"), alpha::sell(d, "X", "4", "20", "0.4"), alpha::buy(d + Duration::days(g), "X", "3", "15", "0.3")]);
        }
        d += Duration::days(1);
    }
    out
}

const STD_ASSUME: &str = "decimal equality = |difference| <= 1e-9 (DESIGN §2.1); no SPLIT/UNSPLIT or CAPRETURN/ACCUMULATION on the date of a trade of the same security (convention not fixed by any property)";

pub fn c01(tier: Tier) -> i32 {
    let mut ctx = Ctx::new("C01", tier, preds::all());
    validate_reference_model(&mut ctx);
    let env = Env::new();
    let mut acc = Acc::new();
    let (n_full, n_red) = match tier {
        Tier::Quick => (5, 7),
        Tier::Thorough => (7, 9),
    };
    explore_alpha("C01", &mut ctx, &env, &profiles::match1(&["2"], false), n_full, &mut acc);
    explore_alpha("C01", &mut ctx, &env, &profiles::match1(&["2", "2.5"], true), n_red, &mut acc);
    explore_alpha("C01", &mut ctx, &env, &profiles::match1_same_day(&["2"]), n_full - 1, &mut acc);
    let (from, to) = match tier {
        Tier::Quick => (alpha::date(2014, 1, 1), alpha::date(2026, 12, 31)),
        Tier::Thorough => (alpha::date(1900, 4, 6), alpha::date(2100, 12, 31)),
    };
    explore_list("C01", &mut ctx, &env, "calendar", calendar_ledgers(from, to), &mut acc, &format!("BUY(D-100) SELL(D) BUY(D+g), every D in {from}..{to}, g in -1,0,1,29,30,31,32"));
    explore_alpha("C01", &mut ctx, &env, &crate::perm::fills_alphabet(), if tier == Tier::Quick { 5 } else { 6 }, &mut acc);
    // several securities whose trades and corporate actions interleave on the same dates
    explore_alpha("C01", &mut ctx, &env, &profiles::two_sec(), if tier == Tier::Quick { 5 } else { 6 }, &mut acc);
    explore_alpha("C01", &mut ctx, &env, &profiles::nano(), 5, &mut acc);
    explore_list("C01", &mut ctx, &env, "compete", profiles::compete_ledgers(), &mut acc, "2-3 consecutive disposal days + an acquisition day with its own disposal, all quantity combinations, with/without a split in between");
    for k in ["legs:same-day", "legs:30-day", "legs:section-104", "shape:30-day-leg-across-split", "shape:30-day-leg-onto-day-with-own-disposal", "shape:several-disposals-claim-one-acquisition-day", "shape:30-day-leg-at-exactly-D+30", "shape:disposal-spread-over-several-rules"] {
        ctx.require(acc.get(k) > 0, &format!("no state exhibited {k}"));
    }
    ctx.bound = json!({"match1_max_events": n_full, "match1_reduced_max_events": n_red, "calendar": format!("{from}..{to}")});
    ctx.explanation = "Every multiset of events over each alphabet up to the bound is written out as a ledger (one generating path per multiset), the real cgt_core::calculator::calculate is executed on it, and for every accepted+covered ledger the legs (rule, quantity, acquisition date, allowable cost, gain; disposal proceeds and gain) are compared with reference model R evaluated in exact rationals. states = ledgers executed; traces_validated = ledgers on which R's prediction was compared leg by leg.".into();
    ctx.assumptions = vec!["quantities/prices/ratios restricted to the alphabets listed; one security (independence is C09)".into(), STD_ASSUME.into(), "reference model R validated on every run against the repository's golden JSON fixtures".into()];
    ctx.finish(&acc, "model_checking")
}

pub fn c02(tier: Tier) -> i32 {
    let mut ctx = Ctx::new("C02", tier, preds::all());
    let env = Env::new();
    let mut acc = Acc::new();
    let (n_full, n_red, n_two) = match tier {
        Tier::Quick => (5, 6, 5),
        Tier::Thorough => (6, 8, 6),
    };
    explore_alpha("C02", &mut ctx, &env, &profiles::match1(&["2"], false), n_full, &mut acc);
    explore_alpha("C02", &mut ctx, &env, &profiles::match1(&["3", "2.5"], true), n_red, &mut acc);
    explore_alpha("C02", &mut ctx, &env, &profiles::match1_same_day(&["2"]), n_full - 1, &mut acc);
    explore_alpha("C02", &mut ctx, &env, &profiles::two_sec(), n_two, &mut acc);
    explore_alpha("C02", &mut ctx, &env, &crate::perm::fills_alphabet(), n_two, &mut acc);
    // remainders of a billionth of a share and less (nine and ten decimal places)
    explore_alpha("C02", &mut ctx, &env, &profiles::nano(), if tier == Tier::Quick { 5 } else { 7 }, &mut acc);
    explore_list("C02", &mut ctx, &env, "compete", profiles::compete_ledgers(), &mut acc, "competing disposals (see C01)");
    for k in ["legs:same-day", "legs:30-day", "legs:section-104", "shape:30-day-leg-across-split", "shape:several-disposals-claim-one-acquisition-day", "shape:disposal-spread-over-several-rules"] {
        ctx.require(acc.get(k) > 0, &format!("no state exhibited {k}"));
    }
    ctx.bound = json!({"match1_max_events": n_full, "match1_reduced_ratios_3_2.5_max_events": n_red, "two_sec_max_events": n_two});
    ctx.explanation = "Every ledger of the bounded ledger graph is executed on the real calculate(); on every accepted ledger three conservation laws are evaluated in exact rationals from the input lines and the report alone (legs add up to the day's SELL lines; same-day + 30-day claims on an acquisition day, rescaled across splits, never exceed that day's BUY lines; closing holding = acquisitions - disposals rescaled by later splits). No reference model is involved.".into();
    ctx.assumptions = vec!["alphabets as listed; ratios 2, 2.5, 3".into(), STD_ASSUME.into()];
    ctx.finish(&acc, "model_checking")
}

pub fn c05(tier: Tier) -> i32 {
    let mut ctx = Ctx::new("C05", tier, preds::all());
    validate_reference_model(&mut ctx);
    let env = Env::new();
    let mut acc = Acc::new();
    let (n_full, n_over) = match tier {
        Tier::Quick => (5, 5),
        Tier::Thorough => (6, 6),
    };
    explore_alpha("C05", &mut ctx, &env, &profiles::match1(&["2"], false), n_full, &mut acc);
    explore_alpha("C05", &mut ctx, &env, &profiles::oversell(), n_over, &mut acc);
    explore_alpha("C05", &mut ctx, &env, &profiles::match1_same_day(&["2"]), n_full - 1, &mut acc);
    explore_alpha("C05", &mut ctx, &env, &profiles::oversell_two_sec(), n_over, &mut acc);
    explore_alpha("C05", &mut ctx, &env, &profiles::nano(), if tier == Tier::Quick { 5 } else { 7 }, &mut acc);
    ctx.require(acc.get("interleaved-line-order-also-run") > 0, "no ledger was run in an interleaved order");
    crate::cli::c05_frontends(&mut ctx, &mut acc);
    ctx.require(acc.get("frontend:cli-runs") > 0 && acc.get("frontend:mcp-requests") > 0, "front-ends not exercised");
    ctx.require(acc.get("covered-and-accepted") > 0, "no covered ledger");
    ctx.require(acc.get("shape:uncovered") > 0, "no uncovered ledger");
    ctx.bound = json!({"match1_max_events": n_full, "oversell_max_events": n_over});
    ctx.explanation = "Every ledger of the bounded ledger graph (including duplicated rows and oversells that only appear after SPLIT/UNSPLIT) is executed on the real calculate(); acceptance is compared with the exact-rational coverage predicate (cumulative acquisitions >= cumulative disposals on every date, rescaled by splits), and every refusal must name the ticker and ISO date of an uncovered sale.".into();
    ctx.assumptions = vec!["GBP only, exemptions configured for 1900-2100, no CAPRETURN: no other obstacle by construction".into()];
    ctx.finish(&acc, "model_checking")
}

pub fn c03(tier: Tier) -> i32 {
    let mut ctx = Ctx::new("C03", tier, preds::all());
    validate_reference_model(&mut ctx);
    let env = Env::new();
    let mut acc = Acc::new();
    let (n_ev, n_fx, n_two) = match tier {
        Tier::Quick => (5, 4, 5),
        Tier::Thorough => (6, 5, 6),
    };
    explore_alpha("C03", &mut ctx, &env, &profiles::events(&["2"]), n_ev, &mut acc);
    explore_alpha("C03", &mut ctx, &env, &profiles::events_fx(), n_fx, &mut acc);
    explore_alpha("C03", &mut ctx, &env, &profiles::events_same_day(), n_ev + 1, &mut acc);
    explore_alpha("C03", &mut ctx, &env, &profiles::events_reduced(), n_ev + 2, &mut acc);
    explore_alpha("C03", &mut ctx, &env, &profiles::two_sec(), n_two, &mut acc);
    explore_alpha("C03", &mut ctx, &env, &crate::perm::fills_alphabet(), n_two + 1, &mut acc);
    for k in ["legs:same-day", "legs:30-day", "legs:section-104", "shape:adjustment-while-shares-held", "shape:adjustment-with-no-shares-held", "shape:30-day-leg-across-split"] {
        ctx.require(acc.get(k) > 0, &format!("no state exhibited {k}"));
    }
    ctx.bound = json!({"events_max_events": n_ev, "events_fx_max_events": n_fx, "two_sec_max_events": n_two});
    ctx.explanation = "Every ledger over the `events` alphabets (BUY with fees, SELL, SPLIT/UNSPLIT, CAPRETURN incl. one exactly equal to a lot's cost and over-large ones, ACCUMULATION, DIVIDEND; a USD/EUR variant) is executed on the real calculate(); on every accepted ledger, per security, Σ legs' allowable cost + closing cost is compared in exact rationals with Σ acquisition cost + accumulations − net capital returns in force (events dated while R's position is positive must be applied in full; with no shares held either reading is accepted).".into();
    ctx.assumptions = vec![STD_ASSUME.into(), "FX rates re-read from the bundled XML by an independent scanner".into()];
    ctx.finish(&acc, "model_checking")
}

pub fn c09(tier: Tier) -> i32 {
    let mut ctx = Ctx::new("C09", tier, preds::all());
    let env = Env::new();
    let mut acc = Acc::new();
    let n = match tier {
        Tier::Quick => 6,
        Tier::Thorough => 7,
    };
    explore_alpha("C09", &mut ctx, &env, &profiles::two_sec(), n, &mut acc);
    explore_alpha("C09", &mut ctx, &env, &profiles::two_sec_fills(), n + 1, &mut acc);
    explore_alpha("C09", &mut ctx, &env, &profiles::two_sec_fx(), n - 1, &mut acc);
    crate::text::c09_case_spellings(&mut ctx, &env, &mut acc);
    ctx.require(acc.get("combined-vs-singles-compared") > 0, "no accepted two-security ledger");
    ctx.require(acc.get("case-spellings-compared") > 0, "no case spelling compared");
    ctx.bound = json!({"two_sec_max_events": n});
    ctx.explanation = "Every ledger over two securities trading on the same dates is executed on the real calculate() and compared with the runs of each security's lines alone: disposals and leg lists, holdings, acceptance, and year totals adding up; the reversed line order must give the same report. Every upper/lower-case spelling of the tickers, in DSL text and in JSON input, must parse to the upper-case ticker and give the single-spelling report.".into();
    ctx.assumptions = vec![STD_ASSUME.into()];
    ctx.finish(&acc, "model_checking")
}

pub fn c10(tier: Tier) -> i32 {
    let mut ctx = Ctx::new("C10", tier, preds::all());
    let env = Env::new();
    let mut acc = Acc::new();
    let (n_ev, n_m) = match tier {
        Tier::Quick => (4, 4),
        Tier::Thorough => (5, 5),
    };
    explore_alpha("C10", &mut ctx, &env, &profiles::events(&["2", "2.5"]), n_ev, &mut acc);
    // one event deeper on the reduced alphabet: two disposals (or a disposal and the acquisition day's own sale)
    // competing across a split for one later acquisition need five events
    explore_alpha("C10", &mut ctx, &env, &profiles::match1(&["2", "4"], true), n_m + 1, &mut acc);
    explore_alpha("C10", &mut ctx, &env, &profiles::match1_same_day(&["2"]), n_m, &mut acc);
    // a split of one security inside the 30-day window of another
    explore_alpha("C10", &mut ctx, &env, &profiles::two_sec(), n_m, &mut acc);
    ctx.require(acc.get("twin-both-accepted") > 0, "no accepted twin pair");
    ctx.require(acc.get("split-unsplit-pair-inserted") > 0, "no pair insertion");
    ctx.bound = json!({"events_max_events": n_ev, "match1_reduced_max_events": n_m});
    ctx.explanation = "For every ledger of the bounded graph containing SPLIT/UNSPLIT the rescaled twin (quantities in final units, unit prices divided, split lines removed; built in exact rationals and used only when exactly representable) is executed as well: acceptance, every gain, proceeds, allowable cost, merged leg and closing cost must agree, quantities after rescaling. For every ledger, SPLIT r;UNSPLIT r (and the reverse) inserted on every pair of adjacent free dates must change nothing.".into();
    ctx.assumptions = vec![STD_ASSUME.into(), "ratios 2, 2.5, 4, 10 (finite reciprocals; ratio 3 is C02/C05 territory)".into()];
    ctx.finish(&acc, "model_checking")
}

pub fn c11(tier: Tier) -> i32 {
    let mut ctx = Ctx::new("C11", tier, preds::all());
    let env = Env::new();
    let mut acc = Acc::new();
    let (n_ev, n_two) = match tier {
        Tier::Quick => (4, 4),
        Tier::Thorough => (5, 5),
    };
    explore_alpha("C11", &mut ctx, &env, &profiles::events(&["2"]), n_ev, &mut acc);
    explore_alpha("C11", &mut ctx, &env, &profiles::two_sec(), n_two, &mut acc);
    explore_alpha("C11", &mut ctx, &env, &profiles::events_reduced(), n_ev + 2, &mut acc);
    explore_alpha("C11", &mut ctx, &env, &profiles::events_two_adj(), n_ev + 2, &mut acc);
    explore_alpha("C11", &mut ctx, &env, &profiles::events_fx(), n_ev, &mut acc);
    explore_alpha("C11", &mut ctx, &env, &profiles::events_same_day(), n_ev + 1, &mut acc);
    // a DIVIDEND line between any two lines of ledgers with several fills per day
    explore_alpha("C11div", &mut ctx, &env, &crate::perm::fills_alphabet(), n_ev, &mut acc);
    explore_alpha("C11div", &mut ctx, &env, &profiles::two_sec_fills(), n_ev, &mut acc);
    ctx.require(acc.get("dividend-line-inserted") > 0, "no dividend line was inserted");
    // costs within a fraction of a penny of zero, on and around the half-penny midpoints
    explore_alpha("C11", &mut ctx, &env, &profiles::events_penny(), n_ev + 3, &mut acc);
    for k in ["adjustment-differential(position>0)", "adjustment-before-any-acquisition", "dividend-differential", "cancelling-pair-inserted", "bracket:return-absorbable", "bracket:return-exceeds-all-expenditure"] {
        ctx.require(acc.get(k) > 0, &format!("no state exhibited {k}"));
    }
    ctx.bound = json!({"events_max_events": n_ev, "two_sec_max_events": n_two});
    ctx.explanation = "Every ledger of the `events` graph is executed together with the ledger minus each CAPRETURN/ACCUMULATION/DIVIDEND event: total expenditure must move by exactly the net amount when shares are held; legs identified with acquisitions dated after the event keep their cost; other securities are untouched; an event before every acquisition is without effect; a cash dividend changes only dividend totals; ACCUMULATION 4 + CAPRETURN 5 FEES 1 inserted on any free date with shares held cancels; no negative cost; a return not exceeding the pool's remaining expenditure must be accepted and one exceeding all expenditure ever incurred must be refused citing S122.".into();
    ctx.assumptions = vec![STD_ASSUME.into(), "which earlier legs absorb an adjustment is not checked (the tool deliberately attaches adjustments to earlier acquisitions; golden fixture AccumulationDividend pins it)".into()];
    ctx.finish(&acc, "model_checking")
}

pub fn c12(tier: Tier) -> i32 {
    let mut ctx = Ctx::new("C12", tier, preds::all());
    validate_reference_model(&mut ctx);
    let env = Env::new();
    let mut acc = Acc::new();
    let (n_m, n_two) = match tier {
        Tier::Quick => (3, 4),
        Tier::Thorough => (4, 5),
    };
    explore_alpha("C12", &mut ctx, &env, &profiles::match1(&["2"], false), n_m, &mut acc);
    explore_alpha("C12", &mut ctx, &env, &profiles::two_sec(), n_two, &mut acc);
    explore_alpha("C12", &mut ctx, &env, &profiles::events(&["2"]), n_m, &mut acc);
    explore_alpha("C12", &mut ctx, &env, &profiles::match1_same_day(&["2"]), n_m + 1, &mut acc);
    // prefixes in their other line orders (a SELL line written before the same day's BUY line) with every continuation
    // of up to two purchases/sales
    explore_alpha("C12deep", &mut ctx, &env, &profiles::match1(&["2"], true), n_m + 1, &mut acc);
    // the file grows by 1..40 lines: two securities with several fills per day, every line order of the prefix
    explore_alpha("C12pad", &mut ctx, &env, &profiles::two_sec_fills(), n_two + 1, &mut acc);
    explore_alpha("C12pad", &mut ctx, &env, &profiles::two_sec(), n_two, &mut acc);
    explore_alpha("C12pad", &mut ctx, &env, &profiles::match1(&["2"], true), n_m + 1, &mut acc);
    ctx.require(acc.get("growth-continuations-run") > 0, "no growth continuation was run");
    // calendar positions: the prefix BUY(D-100), SELL(D) for every day D of 2015-2026; its extensions are dated D+31,
    // D+32, D+45 and on both sides of the next 5/6 April
    {
        let (from, to) = (alpha::date(2015, 1, 1), alpha::date(2026, 12, 31));
        let mut prefixes = vec![];
        let mut d = from;
        while d <= to {
            prefixes.push(vec![alpha::buy(d - Duration::days(100), "X", "10", "10", "1"), alpha::sell(d, "X", "4", "20", "0.4")]);
            d += Duration::days(1);
        }
        explore_list("C12", &mut ctx, &env, "calendar-prefixes", prefixes, &mut acc, "BUY(D-100) SELL(D) for every D in 2015-01-01..2026-12-31, each with every extension");
    }
    ctx.require(acc.get("extension-accepted") > 0 && acc.get("extension-rejected") > 0, "extensions must include accepted and rejected ones");
    ctx.bound = json!({"prefix_match1_max_events": n_m, "prefix_two_sec_max_events": n_two, "suffix_max_events": if tier == Tier::Quick { 1 } else { 2 }});
    ctx.explanation = "Edges prefix -> prefix+suffix of the ledger graph: for every accepted prefix, every sequence of up to k events from {BUY, SELL 3, SELL 99, SPLIT 2, UNSPLIT 2, DIVIDEND} dated T+31, T+32, T+45 (T = last prefix date) is appended and the real calculate() run again: every prefix disposal must reappear with identical leg list, cost and gain; totals of years that gained no disposal are unchanged; a refusal must be caused by (and name) an appended date. Every extension is run in two layouts (later lines after, or before, the existing lines). transitions = extensions executed.".into();
    ctx.assumptions = vec![STD_ASSUME.into(), "CAPRETURN/ACCUMULATION are never appended (the statement excludes them from continuations); prefixes may contain them".into()];
    ctx.finish(&acc, "model_checking")
}

pub fn replay(prop: &str, file: &str) -> i32 {
    let s = std::fs::read_to_string(file).unwrap_or_else(|e| machinery_failure(&format!("cannot read {file}: {e}")));
    let v: Value = serde_json::from_str(&s).unwrap_or_else(|e| machinery_failure(&format!("bad replay file: {e}")));
    let dsl = v["context"]["explored_state"].as_str().or(v["input"]["dsl"].as_str()).unwrap_or_else(|| machinery_failure("replay file has no ledger"));
    let txs = refparse::parse(dsl).unwrap_or_else(|e| machinery_failure(&format!("replay ledger does not parse: {e:?}")));
    let env = Env::new();
    let tier = if v["tier"].as_str() == Some("thorough") { Tier::Thorough } else { Tier::Quick };
    let run = || {
        let mut acc = Acc::new();
        oracle(prop, &env, &txs, &mut acc, tier).into_iter().map(|d| format!("{}: {} {}", d.clause, d.detail, if d.context.is_null() { String::new() } else { d.context.to_string() })).collect::<Vec<_>>()
    };
    let a = run();
    let b = run();
    if a != b {
        machinery_failure("replay is not deterministic: two executions of the same input disagree");
    }
    println!("ledger:\n{dsl}");
    if a.is_empty() {
        println!("replay: property {prop} holds on this input");
        0
    } else {
        for l in &a {
            println!("  {l}");
        }
        println!("VIOLATION property={prop} replay={file}");
        1
    }
}
