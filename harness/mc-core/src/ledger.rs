//! Ledger-graph engines: C01 (matching vs reference model R), C02 (share conservation), C05 (acceptance ⇔ covered).
use crate::{conserve, preds};
use cgt_core::{Config, Operation, Transaction};
use chrono::{Duration, NaiveDate};
use mcx::alpha::{self, Alphabet, dsl_text};
use mcx::fxref;
use mcx::observe::{self, Diff, Outcome, all_years_config, run_calc};
use mcx::profiles;
use mcx::refmodel::{RResult, Rule, evaluate, no_fx, to_rtx};
use mcx::refparse;
use mcx::run::{Acc, Ctx, Input, Tier, Violation, machinery_failure};
use rayon::prelude::*;
use serde_json::{Value, json};

pub struct Env {
    pub cfg: Config,
}
impl Env {
    pub fn new() -> Env {
        Env { cfg: all_years_config() }
    }
}

pub fn validate_reference_model(ctx: &mut Ctx) {
    let rates = fxref::load_bundled();
    let rep = mcx::fixtures::validate_r(&rates);
    if !rep.problems.is_empty() {
        for p in &rep.problems {
            eprintln!("  fixture problem: {p}");
        }
        machinery_failure("reference model R disagrees with the repository's golden fixtures (tests/json)");
    }
    if rep.checked < 25 {
        machinery_failure(&format!("reference model validated on only {} fixtures", rep.checked));
    }
    ctx.extra.insert("reference_model_validation".into(), json!({"golden_fixtures_agreeing": rep.checked, "skipped_capreturn_accumulation": rep.skipped}));
}

pub fn r_of(txs: &[Transaction]) -> RResult {
    match to_rtx(txs, &no_fx) {
        Ok(r) => evaluate(&r),
        Err(m) => machinery_failure(&format!("GBP-only alphabet contains foreign amount {m:?}")),
    }
}

fn shape_counters(acc: &mut Acc, txs: &[Transaction], r: &RResult) {
    use std::collections::BTreeMap;
    let mut claims: BTreeMap<(String, NaiveDate), Vec<NaiveDate>> = BTreeMap::new();
    let mut multi_rule = false;
    for d in &r.disposals {
        let mut rules = std::collections::BTreeSet::new();
        for l in &d.legs {
            rules.insert(l.rule);
            match l.rule {
                Rule::SameDay => acc.bump("legs:same-day"),
                Rule::Bnb => {
                    acc.bump("legs:30-day");
                    let e = l.acq.unwrap_or(d.date);
                    claims.entry((d.ticker.clone(), e)).or_default().push(d.date);
                    let gap = (e - d.date).num_days();
                    if gap == 30 {
                        acc.bump("shape:30-day-leg-at-exactly-D+30");
                    }
                    if txs.iter().any(|t| t.ticker == d.ticker && t.date >= d.date && t.date < e && matches!(t.operation, Operation::Split { .. } | Operation::Unsplit { .. })) {
                        acc.bump("shape:30-day-leg-across-split");
                    }
                    // acquisition day that also has its own disposal
                    if r.disposals.iter().any(|o| o.ticker == d.ticker && o.date == e) {
                        acc.bump("shape:30-day-leg-onto-day-with-own-disposal");
                    }
                }
                Rule::S104 => acc.bump("legs:section-104"),
            }
        }
        if rules.len() >= 2 {
            multi_rule = true;
        }
    }
    if multi_rule {
        acc.bump("shape:disposal-spread-over-several-rules");
    }
    if claims.values().any(|v| v.len() >= 2) {
        acc.bump("shape:several-disposals-claim-one-acquisition-day");
    }
}

fn viol(clause: &str, txs: &[Transaction], detail: String, context: Value) -> Violation {
    Violation { clause: clause.to_string(), input: Input::Ledger(txs.to_vec()), detail, context }
}

/// Single-state oracles, also used by replay.
pub fn oracle(prop: &str, env: &Env, txs: &[Transaction], acc: &mut Acc) -> Vec<Diff> {
    let r = r_of(txs);
    let out = run_calc(txs, None, None, &env.cfg);
    acc.states += 1;
    acc.bump(out.tag());
    let mut diffs: Vec<Diff> = vec![];
    match prop {
        "C01" => match &out {
            Outcome::Report(rep) => {
                if r.covered() {
                    acc.validated += 1;
                    shape_counters(acc, txs, &r);
                    diffs.extend(observe::compare_matching(rep, &r, !r.has_adjustments));
                } else {
                    acc.bump("accepted-although-uncovered (left to C05)");
                }
            }
            Outcome::Err { .. } => {}
            Outcome::Panic(m) => diffs.push(Diff { clause: "panic", detail: format!("calculate panicked: {m}") }),
        },
        "C02" => match &out {
            Outcome::Report(rep) => {
                acc.validated += 1;
                if r.covered() {
                    shape_counters(acc, txs, &r);
                }
                diffs.extend(conserve::check(txs, rep));
            }
            Outcome::Err { .. } => {}
            Outcome::Panic(m) => diffs.push(Diff { clause: "panic", detail: format!("calculate panicked: {m}") }),
        },
        "C05" => {
            acc.validated += 1;
            match &out {
                Outcome::Report(_) => {
                    if !r.covered() {
                        acc.bump("shape:uncovered");
                        diffs.push(Diff { clause: "uncovered-ledger-accepted", detail: format!("a report was produced although sales are not covered at {:?}", r.uncovered) });
                    } else {
                        acc.bump("covered-and-accepted");
                    }
                }
                Outcome::Err { msg, .. } => {
                    if r.covered() {
                        diffs.push(Diff { clause: "covered-ledger-refused", detail: format!("every sale is covered but the run failed: {msg}") });
                    } else {
                        acc.bump("shape:uncovered");
                        acc.bump("uncovered-and-refused");
                        let named = r.uncovered.iter().any(|(tk, d)| msg.contains(tk.as_str()) && msg.contains(&d.format("%Y-%m-%d").to_string()));
                        if !named {
                            diffs.push(Diff { clause: "error-does-not-name-sale", detail: format!("uncovered sales at {:?} but the error is: {msg}", r.uncovered) });
                        }
                    }
                }
                Outcome::Panic(m) => diffs.push(Diff { clause: "panic", detail: format!("calculate panicked: {m}") }),
            }
        }
        other => machinery_failure(&format!("ledger::oracle has no clause set for {other}")),
    }
    diffs
}

fn visit(prop: &str, ctx: &Ctx, env: &Env, acc: &mut Acc, txs: &[Transaction], profile: &str) {
    let diffs = oracle(prop, env, txs, acc);
    acc.sample(txs.len(), || json!({"profile": profile, "ledger": dsl_text(txs)}));
    for d in diffs {
        acc.violation(&ctx.findings, prop, viol(d.clause, txs, d.detail, json!({"profile": profile})));
    }
}

fn explore_alpha(prop: &str, ctx: &mut Ctx, env: &Env, a: &Alphabet, n: usize, total: &mut Acc) {
    let t0 = std::time::Instant::now();
    let ctx_ref: &Ctx = ctx;
    let acc = a.explore(n, Acc::new, |acc, idx| visit(prop, ctx_ref, env, acc, &a.ledger(idx), &a.name), Acc::merge);
    eprintln!("  [{prop}] profile {} N<={} : {} states in {:.1}s", a.name, n, acc.states, t0.elapsed().as_secs_f64());
    let mut d = a.describe();
    d["max_events"] = json!(n);
    d["states"] = json!(acc.states);
    ctx.alphabets.push(d);
    let merged = Acc::merge(std::mem::take(total), acc);
    *total = merged;
}

fn explore_list(prop: &str, ctx: &mut Ctx, env: &Env, name: &str, ledgers: Vec<Vec<Transaction>>, total: &mut Acc, desc: &str) {
    let t0 = std::time::Instant::now();
    let ctx_ref: &Ctx = ctx;
    let acc = ledgers
        .par_iter()
        .fold(Acc::new, |mut acc, l| {
            visit(prop, ctx_ref, env, &mut acc, l, name);
            acc
        })
        .reduce(Acc::new, Acc::merge);
    eprintln!("  [{prop}] profile {} : {} states in {:.1}s", name, acc.states, t0.elapsed().as_secs_f64());
    ctx.alphabets.push(json!({"name": name, "states": acc.states, "description": desc}));
    let merged = Acc::merge(std::mem::take(total), acc);
    *total = merged;
}

/// `calendar`: BUY(D-100), SELL(D), BUY(D+g) for every D in [from, to] and g in {-1,0,1,29,30,31,32}.
fn calendar_ledgers(from: NaiveDate, to: NaiveDate) -> Vec<Vec<Transaction>> {
    let mut out = vec![];
    let mut d = from;
    while d <= to {
        for g in [-1i64, 0, 1, 29, 30, 31, 32] {
            out.push(vec![alpha::buy(d - Duration::days(100), "X", "10", "10", "1"), alpha::sell(d, "X", "4", "20", "0.4"), alpha::buy(d + Duration::days(g), "X", "3", "15", "0.3")]);
        }
        d += Duration::days(1);
    }
    out
}

pub fn c01(tier: Tier) -> i32 {
    let mut ctx = Ctx::new("C01", tier, preds::all());
    validate_reference_model(&mut ctx);
    let env = Env::new();
    let mut acc = Acc::new();
    let (n_full, n_red) = match tier {
        Tier::Quick => (5, 7),
        Tier::Thorough => (7, 9),
    };
    explore_alpha("C01", &mut ctx, &env, &profiles::match1(&["2"], false), n_full, &mut acc);
    explore_alpha("C01", &mut ctx, &env, &profiles::match1(&["2", "2.5"], true), n_red, &mut acc);
    let (from, to) = match tier {
        Tier::Quick => (alpha::date(2014, 1, 1), alpha::date(2026, 12, 31)),
        Tier::Thorough => (alpha::date(1900, 4, 6), alpha::date(2100, 12, 31)),
    };
    explore_list("C01", &mut ctx, &env, "calendar", calendar_ledgers(from, to), &mut acc, &format!("BUY(D-100) SELL(D) BUY(D+g), every D in {from}..{to}, g in -1,0,1,29,30,31,32"));
    explore_list("C01", &mut ctx, &env, "compete", profiles::compete_ledgers(), &mut acc, "2-3 consecutive disposal days + an acquisition day with its own disposal, all quantity combinations, with/without a split in between");
    for k in ["legs:same-day", "legs:30-day", "legs:section-104", "shape:30-day-leg-across-split", "shape:30-day-leg-onto-day-with-own-disposal", "shape:several-disposals-claim-one-acquisition-day", "shape:30-day-leg-at-exactly-D+30", "shape:disposal-spread-over-several-rules"] {
        ctx.require(acc.get(k) > 0, &format!("no state exhibited {k}"));
    }
    ctx.bound = json!({"match1_max_events": n_full, "match1_reduced_max_events": n_red, "calendar": format!("{from}..{to}")});
    ctx.explanation = "Every multiset of events over each alphabet up to the bound is written out as a ledger (one generating path per multiset), the real cgt_core::calculator::calculate is executed on it, and for every accepted+covered ledger the legs (rule, quantity, acquisition date, allowable cost, gain; disposal proceeds and gain) are compared with reference model R evaluated in exact rationals. states = ledgers executed; traces_validated = ledgers on which R's prediction was compared leg by leg.".into();
    ctx.assumptions = vec![
        "quantities/prices/ratios restricted to the alphabets listed; one security (independence is C09)".into(),
        "no SPLIT/UNSPLIT on the date of a trade of the same security (convention not fixed by any property)".into(),
        "decimal equality = |difference| <= 1e-9 (DESIGN §2.1)".into(),
        "reference model R validated on every run against the repository's golden JSON fixtures".into(),
    ];
    ctx.finish(&acc, "model_checking")
}

pub fn c02(tier: Tier) -> i32 {
    let mut ctx = Ctx::new("C02", tier, preds::all());
    let env = Env::new();
    let mut acc = Acc::new();
    let (n_full, n_red, n_two) = match tier {
        Tier::Quick => (5, 6, 5),
        Tier::Thorough => (6, 8, 6),
    };
    explore_alpha("C02", &mut ctx, &env, &profiles::match1(&["2"], false), n_full, &mut acc);
    explore_alpha("C02", &mut ctx, &env, &profiles::match1(&["3", "2.5"], true), n_red, &mut acc);
    explore_alpha("C02", &mut ctx, &env, &profiles::two_sec(), n_two, &mut acc);
    explore_list("C02", &mut ctx, &env, "compete", profiles::compete_ledgers(), &mut acc, "competing disposals (see C01)");
    for k in ["legs:same-day", "legs:30-day", "legs:section-104", "shape:30-day-leg-across-split", "shape:several-disposals-claim-one-acquisition-day", "shape:disposal-spread-over-several-rules"] {
        ctx.require(acc.get(k) > 0, &format!("no state exhibited {k}"));
    }
    ctx.bound = json!({"match1_max_events": n_full, "match1_reduced_ratios_3_2.5_max_events": n_red, "two_sec_max_events": n_two});
    ctx.explanation = "Every ledger of the bounded ledger graph is executed on the real calculate(); on every accepted ledger three conservation laws are evaluated in exact rationals from the input lines and the report alone (legs add up to the day's SELL lines; same-day + 30-day claims on an acquisition day, rescaled across splits, never exceed that day's BUY lines; closing holding = acquisitions - disposals rescaled by later splits). No reference model is involved.".into();
    ctx.assumptions = vec!["alphabets as listed; ratios 2, 2.5, 3".into(), "decimal equality = |difference| <= 1e-9".into()];
    ctx.finish(&acc, "model_checking")
}

pub fn c05(tier: Tier) -> i32 {
    let mut ctx = Ctx::new("C05", tier, preds::all());
    validate_reference_model(&mut ctx);
    let env = Env::new();
    let mut acc = Acc::new();
    let (n_full, n_over) = match tier {
        Tier::Quick => (5, 5),
        Tier::Thorough => (6, 6),
    };
    explore_alpha("C05", &mut ctx, &env, &profiles::match1(&["2"], false), n_full, &mut acc);
    explore_alpha("C05", &mut ctx, &env, &profiles::oversell(), n_over, &mut acc);
    ctx.require(acc.get("covered-and-accepted") > 0 || acc.get("accepted") > 0, "no covered ledger");
    ctx.require(acc.get("shape:uncovered") > 0, "no uncovered ledger");
    ctx.bound = json!({"match1_max_events": n_full, "oversell_max_events": n_over});
    ctx.explanation = "Every ledger of the bounded ledger graph (including duplicated rows and oversells that only appear after SPLIT/UNSPLIT) is executed on the real calculate(); acceptance is compared with the exact-rational coverage predicate (cumulative acquisitions >= cumulative disposals on every date, rescaled by splits), and every refusal must name the ticker and ISO date of an uncovered sale.".into();
    ctx.assumptions = vec!["GBP only, exemptions configured for 1900-2100, no CAPRETURN: no other obstacle by construction".into()];
    ctx.finish(&acc, "model_checking")
}

pub fn replay(prop: &str, file: &str) -> i32 {
    let s = std::fs::read_to_string(file).unwrap_or_else(|e| machinery_failure(&format!("cannot read {file}: {e}")));
    let v: Value = serde_json::from_str(&s).unwrap_or_else(|e| machinery_failure(&format!("bad replay file: {e}")));
    let Some(dsl) = v["input"]["dsl"].as_str() else { machinery_failure("replay file has no input.dsl") };
    let txs = refparse::parse(dsl).unwrap_or_else(|e| machinery_failure(&format!("replay ledger does not parse: {e:?}")));
    let env = Env::new();
    let run = || {
        let mut acc = Acc::new();
        oracle(prop, &env, &txs, &mut acc).into_iter().map(|d| format!("{}: {}", d.clause, d.detail)).collect::<Vec<_>>()
    };
    let a = run();
    let b = run();
    if a != b {
        machinery_failure("replay is not deterministic: two executions of the same input disagree");
    }
    println!("ledger:\n{dsl}");
    if a.is_empty() {
        println!("replay: property {prop} holds on this input");
        0
    } else {
        for l in &a {
            println!("  {l}");
        }
        println!("VIOLATION property={prop} replay={file}");
        1
    }
}
