//! C20: the MCP server answers every request, statelessly. All request sequences of length <= k over a request
//! alphabet, each under every await/pipeline pattern, each in a fresh real `cgt-tool mcp` process.
use crate::preds;
use mcx::proc::{Mcp, Scratch, run_tool, tool_text};
use mcx::run::{Acc, Ctx, Input, Tier, Violation, machinery_failure};
use rayon::prelude::*;
use serde_json::{Value, json};
use std::collections::BTreeMap;
use std::time::Duration;

const LED: &str = "2024-01-01 BUY X 10 @ 10\n2024-02-01 SELL X 4 @ 12 FEES 1";
const LED2: &str = "2024-01-01 BUY AAA 10 @ 10\n2024-01-01 BUY BBB 10 @ 10\n2024-01-01 BUY CCC 10 @ 10\n2024-02-01 SELL AAA 4 @ 12\n2024-02-01 SELL BBB 4 @ 12\n2024-02-01 SELL CCC 4 @ 12";

fn call(name: &str, args: Value) -> Value {
    json!({"method": "tools/call", "params": {"name": name, "arguments": args}})
}

/// (name, request body without id, must_be_answered)
pub fn alphabet() -> Vec<(&'static str, Value)> {
    vec![
        ("parse_ok", call("parse_transactions", json!({"transactions": LED}))),
        ("calc_ok", call("calculate_report", json!({"transactions": LED}))),
        ("explain_ok", call("explain_matching", json!({"transactions": LED, "disposal_date": "2024-02-01", "ticker": "x"}))),
        ("fx_ok", call("get_fx_rate", json!({"currency": "usd", "year": 2024, "month": 3}))),
        ("todsl_ok", call("convert_to_dsl", json!({"transactions": "[{\"date\":\"2024-01-15\",\"ticker\":\"aapl\",\"action\":\"buy\",\"amount\":\"1\",\"price\":\"2\"}]"}))),
        ("calc_uncovered", call("calculate_report", json!({"transactions": "2024-02-01 SELL X 4 @ 12"}))),
        ("calc_nofx", call("calculate_report", json!({"transactions": "2031-01-01 BUY X 10 @ 10 USD\n2031-02-01 SELL X 4 @ 12 USD"}))),
        ("calc_syntax", call("calculate_report", json!({"transactions": "2024-02-01 SELL X"}))),
        // a failing calculation with several possible culprits (three tax years without a configured exemption)
        ("calc_unconfigured_years", call("calculate_report", json!({"transactions": "2010-01-10 BUY X 100 @ 10\n2011-06-01 SELL X 10 @ 12\n2012-06-01 SELL X 10 @ 12\n2013-06-01 SELL X 10 @ 12"}))),
        // a valid date that is not zero-padded (the date parser accepts it; whatever the server makes of it, it answers)
        ("explain_unpadded_date", call("explain_matching", json!({"transactions": LED, "disposal_date": "2024-2-1", "ticker": "X"}))),
        ("explain_baddate", call("explain_matching", json!({"transactions": LED, "disposal_date": "01/02/2024", "ticker": "X"}))),
        ("explain_unknown_ticker", call("explain_matching", json!({"transactions": LED2, "disposal_date": "2024-02-01", "ticker": "ZZZ"}))),
        ("badtype", call("get_fx_rate", json!({"currency": "USD", "year": "x", "month": 3}))),
        ("missingarg", call("calculate_report", json!({}))),
        ("unknown_tool", call("nope", json!({}))),
        ("res_list", json!({"method": "resources/list"})),
        ("res_read_ok", json!({"method": "resources/read", "params": {"uri": "cgt://docs/dsl-syntax"}})),
        ("res_read_bad", json!({"method": "resources/read", "params": {"uri": "cgt://nope"}})),
        // last: a request whose calculation overflows (open finding C15-F1/C20-F1 class); costs one horizon when unanswered
        ("calc_overflow", call("calculate_report", json!({"transactions": "2024-01-01 BUY X 7000000000000000 @ 70000000000000\n2024-02-01 SELL X 1 @ 1"}))),
    ]
}

struct SessionResult {
    got: BTreeMap<String, Vec<Value>>,
    alive_before_eof: bool,
    exit: Option<i32>,
    non_json: Vec<String>,
}

/// pattern[i] = true: wait for the response to request i before sending request i+1; false: write both in one batch
fn session(reqs: &[(usize, &Value)], pattern: &[bool], horizon: Duration) -> SessionResult {
    let sc = Scratch::new();
    sc.all_years_config();
    let mut m = Mcp::start(&sc);
    let mut batch: Vec<String> = vec![];
    let mut sent: Vec<String> = vec![];
    for (i, (id, body)) in reqs.iter().enumerate() {
        let mut b = (*body).clone();
        b["jsonrpc"] = json!("2.0");
        b["id"] = json!(id);
        batch.push(b.to_string());
        sent.push(id.to_string());
        let last = i + 1 == reqs.len();
        if last || pattern[i] {
            m.send_batch(&batch);
            batch.clear();
            m.wait_for(&sent, horizon);
        }
    }
    let alive = m.alive();
    let (exit, got, non_json) = m.finish();
    SessionResult { got, alive_before_eof: alive, exit, non_json }
}

fn body(v: &Value) -> String {
    let mut v = v.clone();
    if let Some(o) = v.as_object_mut() {
        o.remove("id");
    }
    v.to_string()
}

pub fn c20(tier: Tier) -> i32 {
    let mut ctx = Ctx::new("C20", tier, preds::all());
    crate::cli::need_tool();
    let alpha = alphabet();
    let horizon = Duration::from_secs(2);
    let k = match tier {
        Tier::Quick => 2,
        Tier::Thorough => 3,
    };
    // solo sessions, repeated: the answer must depend only on the arguments (fresh process = fresh hash seeds)
    let reps = 6;
    let solo_runs: Vec<(usize, Vec<Option<String>>)> = (0..alpha.len())
        .into_par_iter()
        .map(|i| {
            let mut outs = vec![];
            for _ in 0..reps {
                let r = session(&[(1, &alpha[i].1)], &[], horizon);
                outs.push(r.got.get("1").and_then(|v| if v.len() == 1 { Some(body(&v[0])) } else { None }));
            }
            (i, outs)
        })
        .collect();
    let mut acc = Acc::new();
    let mut solo: Vec<Option<String>> = vec![None; alpha.len()];
    for (i, outs) in solo_runs {
        acc.states += reps as u64;
        acc.validated += reps as u64;
        acc.bump("solo-sessions");
        let name = alpha[i].0;
        let inp = Input::Json(json!({"requests": [name], "bodies": [alpha[i].1]}));
        if outs.iter().any(|o| o.is_none()) {
            acc.violation(&ctx.findings, "C20", Violation { clause: "request-not-answered-exactly-once".into(), input: inp.clone(), detail: format!("request '{name}' alone in a session: answered exactly once in only {} of {reps} sessions", outs.iter().filter(|o| o.is_some()).count()), context: json!({"profile": "solo", "request": alpha[i].1}) });
        } else if outs.iter().any(|o| o != &outs[0]) {
            let distinct: std::collections::BTreeSet<&Option<String>> = outs.iter().collect();
            acc.violation(&ctx.findings, "C20", Violation { clause: "answer-not-a-function-of-arguments".into(), input: inp, detail: format!("request '{name}' sent alone to {reps} fresh servers produced {} different answers, e.g. {:?}", distinct.len(), distinct.iter().take(2).map(|d| d.as_ref().map(|s| s.chars().skip(s.len().saturating_sub(160)).collect::<String>())).collect::<Vec<_>>()), context: json!({"profile": "solo", "request": alpha[i].1}) });
        }
        solo[i] = outs[0].clone();
    }
    // the same failing request with the embedded exemption table only (2011-2013 are not in it): whichever year the
    // error names, it must be the same in every fresh server
    {
        let req = alpha.iter().find(|(n, _)| *n == "calc_unconfigured_years").map(|(_, b)| b.clone()).unwrap_or_else(|| machinery_failure("alphabet"));
        let outs: Vec<Option<String>> = (0..12)
            .into_par_iter()
            .map(|_| {
                let sc = Scratch::new();
                let mut m = Mcp::start(&sc);
                let mut b = req.clone();
                b["jsonrpc"] = json!("2.0");
                b["id"] = json!(1);
                m.send_raw(&b.to_string());
                let ok = m.wait_for(&["1".to_string()], Duration::from_secs(10));
                let r = if ok && m.got["1"].len() == 1 { Some(body(&m.got["1"][0])) } else { None };
                let _ = m.finish();
                r
            })
            .collect();
        acc.states += 12;
        acc.validated += 12;
        acc.bump("solo-sessions-embedded-config");
        let inp = Input::Json(json!({"requests": ["calc_unconfigured_years"], "bodies": [req], "config": "embedded table only"}));
        if outs.iter().any(|o| o.is_none()) {
            acc.violation(&ctx.findings, "C20", Violation { clause: "request-not-answered-exactly-once".into(), input: inp, detail: "not answered exactly once in every fresh session".into(), context: json!({"profile": "solo-embedded-config"}) });
        } else if outs.iter().any(|o| o != &outs[0]) || !outs[0].as_deref().unwrap_or("").contains("201") {
            let distinct: std::collections::BTreeSet<String> = outs.iter().flatten().map(|s| s.chars().take(220).collect()).collect();
            acc.violation(&ctx.findings, "C20", Violation { clause: "answer-not-a-function-of-arguments".into(), input: inp, detail: format!("12 fresh servers gave {} different answers to the same request: {:?}", distinct.len(), distinct), context: json!({"profile": "solo-embedded-config"}) });
        }
    }
    let answered: Vec<usize> = (0..alpha.len()).filter(|i| solo[*i].is_some()).collect();
    ctx.require(answered.len() >= alpha.len() - 1, "more than one alphabet request is unanswered in a solo session");
    // sequences
    let mut jobs: Vec<(Vec<usize>, Vec<bool>)> = vec![];
    let n = alpha.len();
    // the overflow request (last) is explored in sequences of length <= 2 only (each unanswered request costs a horizon)
    fn gen_jobs(cur: &mut Vec<usize>, n: usize, k: usize, jobs: &mut Vec<(Vec<usize>, Vec<bool>)>) {
        if cur.len() >= 2 {
            let gaps = cur.len() - 1;
            for mask in 0..(1u32 << gaps) {
                jobs.push((cur.clone(), (0..gaps).map(|g| mask & (1 << g) != 0).collect()));
            }
        }
        if cur.len() == k {
            return;
        }
        for i in 0..n {
            let has_overflow = cur.contains(&(n - 1)) || i == n - 1;
            if has_overflow && cur.len() + 1 > 2 {
                continue;
            }
            cur.push(i);
            gen_jobs(cur, n, k, jobs);
            cur.pop();
        }
    }
    gen_jobs(&mut vec![], n, k, &mut jobs);
    let ctxr: &Ctx = &ctx;
    let solo_ref = &solo;
    let alpha_ref = &alpha;
    let part = jobs
        .par_iter()
        .fold(Acc::new, |mut acc, (seq, pat)| {
            let reqs: Vec<(usize, &Value)> = seq.iter().enumerate().map(|(i, &a)| (i + 1, &alpha_ref[a].1)).collect();
            let mut pattern = pat.clone();
            pattern.push(true);
            let r = session(&reqs, &pattern, horizon);
            acc.states += 1;
            acc.validated += 1;
            acc.bump("transitions");
            acc.bump(&format!("sessions-of-length-{}", seq.len()));
            if pat.iter().any(|p| !*p) {
                acc.bump("sessions-with-pipelined-requests");
            }
            let names: Vec<&str> = seq.iter().map(|&a| alpha_ref[a].0).collect();
            let inp = || Input::Json(json!({"requests": names, "await_pattern": pat, "bodies": seq.iter().map(|&a| alpha_ref[a].1.clone()).collect::<Vec<_>>()}));
            // the known-finding predicate looks at the transactions text of the unanswered request
            for (i, &a) in seq.iter().enumerate() {
                let id = (i + 1).to_string();
                let resp = r.got.get(&id);
                let cx = json!({"profile": "sequence", "request": alpha_ref[a].1, "position": i + 1});
                match resp.map(|v| v.len()).unwrap_or(0) {
                    1 => {
                        if let (Some(s), Some(v)) = (&solo_ref[a], resp) {
                            if &body(&v[0]) != s {
                                acc.violation(&ctxr.findings, "C20", Violation { clause: "answer-depends-on-history".into(), input: inp(), detail: format!("request #{} ('{}') is answered differently than when sent alone", i + 1, alpha_ref[a].0), context: cx });
                            }
                        }
                    }
                    0 => acc.violation(&ctxr.findings, "C20", Violation { clause: "request-not-answered-exactly-once".into(), input: inp(), detail: format!("request #{} ('{}') got no response within {:?}", i + 1, alpha_ref[a].0, horizon), context: cx }),
                    c => acc.violation(&ctxr.findings, "C20", Violation { clause: "request-not-answered-exactly-once".into(), input: inp(), detail: format!("request #{} ('{}') got {c} responses", i + 1, alpha_ref[a].0), context: cx }),
                }
            }
            let extra: Vec<&String> = r.got.keys().filter(|k| *k != "\"init\"" && k.parse::<usize>().map(|x| x == 0 || x > seq.len()).unwrap_or(true)).collect();
            if !extra.is_empty() {
                acc.violation(&ctxr.findings, "C20", Violation { clause: "response-with-foreign-id".into(), input: inp(), detail: format!("responses with ids {extra:?} that were never requested"), context: json!({"profile": "sequence"}) });
            }
            if !r.alive_before_eof {
                acc.violation(&ctxr.findings, "C20", Violation { clause: "server-died-before-eof".into(), input: inp(), detail: "the server process ended before its input was closed".into(), context: json!({"profile": "sequence", "request": seq.iter().map(|&a| alpha_ref[a].1.clone()).collect::<Vec<_>>()}) });
            } else if r.exit != Some(0) {
                acc.violation(&ctxr.findings, "C20", Violation { clause: "server-exit-status".into(), input: inp(), detail: format!("exit status after EOF: {:?}", r.exit), context: json!({"profile": "sequence", "request": seq.iter().map(|&a| alpha_ref[a].1.clone()).collect::<Vec<_>>()}) });
            }
            if !r.non_json.is_empty() {
                acc.violation(&ctxr.findings, "C20", Violation { clause: "non-json-output".into(), input: inp(), detail: format!("non-JSON lines on stdout: {:?}", r.non_json.iter().take(2).collect::<Vec<_>>()), context: json!({"profile": "sequence"}) });
            }
            acc
        })
        .reduce(Acc::new, Acc::merge);
    eprintln!("  [C20] {} sessions", part.states);
    acc = Acc::merge(acc, part);
    // malformed JSON ledgers: a multi-byte character slides over every offset around the error position, for
    // four kinds of error, through three tools; every request must be answered (with an error)
    malformed_json_sweep(&ctx, &mut acc, "C20");
    // every fixture ledger: MCP answers equal the CLI's; explain_matching explains every listed disposal
    fixtures(&ctx, &mut acc);
    // every ordered pair of explain_matching / calculate_report requests about one ledger (all disposals, all year
    // filters) in one server: the second answer must be the one a fresh server gives
    history_pairs(&ctx, &mut acc);
    ctx.require(acc.get("history-pairs:two-request-sessions-vs-fresh-process") > 100, "the request-pair cell did not run");
    // many requests in flight: bursts of 8..64 requests written in one batch, per tool and mixed
    bursts(&ctx, &mut acc, if tier == Tier::Quick { &[8, 16, 32, 64] } else { &[8, 16, 32, 64, 128, 256] });
    ctx.require(acc.get("fixtures:one-year-reports-compared") > 0, "no one-year report was compared");
    ctx.require(acc.get("sessions-with-pipelined-requests") > 0 && acc.get("fixtures:compared") >= 30, "pipelined sessions and fixture comparisons must be exercised");
    ctx.bound = json!({"request_alphabet": n, "max_sequence_length": k, "patterns": "all 2^(k-1) await/pipeline patterns", "horizon_s": 2});
    ctx.alphabets.push(json!({"requests": alpha.iter().map(|(n, b)| json!({"name": n, "body": b})).collect::<Vec<_>>()}));
    ctx.explanation = "States are sessions: every sequence of at most k requests over the request alphabet (the five tools with good arguments, failing calculations, malformed arguments, unknown tool, resource methods), under every await/pipeline pattern (each request either waits for the previous response or is written in the same write), each in a fresh real `cgt-tool mcp` process after the initialize handshake; stdin stays open until every response has arrived or a 2 s horizon has passed. Exactly one response per id, none for foreign ids, each body identical to the one the same request gets alone in a fresh session (and identical across six fresh solo sessions), process alive until EOF and exit 0 afterwards. For every fixture ledger of tests/inputs, calculate_report equals `cgt-tool report --format json` and explain_matching explains every listed disposal with the same legs. Bursts: 8, 16, 32, 64 (thorough: up to 256) requests written in one batch, on the SyntheticComplex ledger and on a generated 1344-line ledger, per tool and mixed: each id answered exactly once with the body the request gets alone.".into();
    ctx.assumptions = vec![
        "internal interleavings of rmcp/tokio tasks cannot be enumerated (the repository owns no synchronisation; neither loom nor shuttle can schedule tokio's runtime); what is enumerated is every externally controllable schedule; responses are matched by id so any completion order is accepted".into(),
        "non-JSON lines and methods outside the five tools and the resource methods are outside the statement's quantifier".into(),
        "'no response within the horizon' is the only time-based verdict".into(),
    ];
    ctx.finish(&acc, "model_checking")
}

/// The MCP front-end: "the same command on the same inputs" must get the same bytes from a fresh process and from a
/// process that has already answered another request. Request alphabet: explain_matching for every disposal of a
/// ledger with sales on both sides of 5/6 April within one calendar year (two securities), and calculate_report for
/// every year filter; every ordered pair (first, second) of requests runs in its own fresh `cgt-tool mcp` process,
/// and the answer to `second` must be byte-identical to the answer it gets alone in a fresh process.
pub fn history_pairs(ctx: &Ctx, acc: &mut Acc) {
    use mcx::proc::tool_call;
    let ledger = "2023-01-10 BUY VOD 1000 @ 1.00\n2023-01-10 BUY ACME 500 @ 2.00 FEES 3\n2024-03-01 SELL VOD 100 @ 1.50\n2024-04-05 SELL ACME 50 @ 2.50\n2024-04-06 SELL VOD 30 @ 1.40\n2024-06-03 SELL VOD 200 @ 1.20\n2024-06-03 SELL ACME 20 @ 1.90 FEES 1\n2025-03-01 SELL ACME 10 @ 2.20\n2025-04-07 SELL VOD 5 @ 1.10\n";
    let mut reqs: Vec<(String, String, Value)> = vec![];
    for (d, t) in [("2024-03-01", "VOD"), ("2024-04-05", "ACME"), ("2024-04-06", "VOD"), ("2024-06-03", "VOD"), ("2024-06-03", "ACME"), ("2025-03-01", "ACME"), ("2025-04-07", "VOD")] {
        reqs.push((format!("explain {d} {t}"), "explain_matching".into(), json!({"transactions": ledger, "disposal_date": d, "ticker": t})));
    }
    for y in [2023, 2024, 2025] {
        reqs.push((format!("report {y}"), "calculate_report".into(), json!({"transactions": ledger, "year": y})));
    }
    reqs.push(("report all".into(), "calculate_report".into(), json!({"transactions": ledger})));
    let session = |seq: &[usize]| -> Option<Vec<String>> {
        let sc = Scratch::new();
        sc.all_years_config();
        let mut m = Mcp::start(&sc);
        let mut out = vec![];
        for (k, i) in seq.iter().enumerate() {
            let id = json!(10 + k);
            m.send_raw(&tool_call(&id, &reqs[*i].1, reqs[*i].2.clone()));
            if !m.wait_for(&[id.to_string()], std::time::Duration::from_secs(20)) {
                let _ = m.finish();
                return None;
            }
            let mut v = m.got[&id.to_string()][0].clone();
            if let Some(o) = v.as_object_mut() {
                o.remove("id");
            }
            out.push(v.to_string());
        }
        let _ = m.finish();
        Some(out)
    };
    let solo: Vec<Option<Vec<String>>> = (0..reqs.len()).into_par_iter().map(|i| session(&[i])).collect();
    let pairs: Vec<(usize, usize)> = (0..reqs.len()).flat_map(|i| (0..reqs.len()).map(move |j| (i, j))).collect();
    let results: Vec<Option<Vec<String>>> = pairs.par_iter().map(|(i, j)| session(&[*i, *j])).collect();
    for ((i, j), r) in pairs.iter().zip(results.iter()) {
        acc.states += 1;
        acc.validated += 1;
        acc.bump("history-pairs:two-request-sessions-vs-fresh-process");
        let inp = Input::Json(json!({"requests": [reqs[*i].0, reqs[*j].0], "ledger": ledger}));
        let want = solo[*j].as_ref().map(|v| v[0].clone());
        match (r, want) {
            (Some(got), Some(w)) => {
                if got[1] != w {
                    acc.violation(&ctx.findings, "C20", Violation { clause: "answer-depends-on-history".into(), input: inp, detail: format!("'{}' is answered differently by a process that has answered '{}' before than by a fresh process: {} vs {}", reqs[*j].0, reqs[*i].0, got[1].chars().take(160).collect::<String>(), w.chars().take(160).collect::<String>()), context: json!({"profile": "mcp request pairs"}) });
                } else if got[1].contains("\"error\"") {
                    acc.bump("history-pairs:second-answer-is-an-error");
                }
            }
            _ => acc.violation(&ctx.findings, "C20", Violation { clause: "answer-depends-on-history".into(), input: inp, detail: "a request got no answer within 20 s".into(), context: json!({"profile": "mcp request pairs"}) }),
        }
    }
}

fn fixtures(ctx: &Ctx, acc: &mut Acc) {
    let dir = "/repo/tests/inputs";
    let mut names: Vec<String> = std::fs::read_dir(dir).map(|rd| rd.flatten().filter_map(|e| e.file_name().to_str().and_then(|n| n.strip_suffix(".cgt").map(String::from))).collect()).unwrap_or_default();
    names.sort();
    if names.len() < 30 {
        machinery_failure("fixture ledgers not found under /repo/tests/inputs");
    }
    // plus a generated ledger with a sale on each side of every tax-year boundary 2016-2025 (leap years included)
    let mut boundary = String::from("2015-01-05 BUY EDGE 1000 @ 10\n");
    for y in 2016..=2025 {
        boundary.push_str(&format!("{y}-04-05 SELL EDGE 3 @ 12 FEES 1\n{y}-04-06 SELL EDGE 2 @ 13\n"));
    }
    names.push("generated:tax-year-boundaries".to_string());
    // ledgers without any purchase or sale, and a ledger whose disposal has a repurchase on day 30 and a capital
    // return in a later tax year
    let generated: std::collections::BTreeMap<&str, String> = [
        ("generated:tax-year-boundaries", boundary.clone()),
        ("generated:dividends-only", "2024-05-01 DIVIDEND VWRL TOTAL 100 USD TAX 5\n2024-08-01 DIVIDEND VWRL TOTAL 30 TAX 0\n".to_string()),
        ("generated:split-only", "2024-05-01 SPLIT VWRL RATIO 2\n".to_string()),
        ("generated:sterling-prices-foreign-fees-and-tax", "2024-01-15 BUY VOD 100 @ 150 GBP FEES 10 USD\n2024-03-01 DIVIDEND VOD TOTAL 40 TAX 4 EUR\n2024-06-20 SELL VOD 50 @ 180 FEES 5 USD\n2024-07-01 CAPRETURN VOD 50 TOTAL 20 FEES 1 EUR\n".to_string()),
        // disposals in tax years without a configured exemption (2013/14 before the table, 2026/27 after it) next to
        // disposals in configured years: the one-year reports of the configured years exist, and every disposal they
        // list must be explainable
        ("generated:year-filtered:unconfigured-years-beside-configured", "2012-03-01 BUY ACME 100 @ 10\n2013-06-01 SELL ACME 10 @ 12\n2024-03-01 SELL ACME 5 @ 14\n2024-06-20 SELL ACME 20 @ 15\n2025-01-10 BUY ACME 5 @ 9\n2025-06-20 SELL ACME 7 @ 16 FEES 1\n2026-06-01 SELL ACME 3 @ 11\n".to_string()),
        ("generated:day-30-and-later-event", "2023-01-10 BUY ACME 100 @ 10 FEES 1\n2024-02-01 SELL ACME 60 @ 12 FEES 0.5\n2024-03-02 BUY ACME 40 @ 11 FEES 1\n2025-03-01 CAPRETURN ACME 80 TOTAL 200\n2025-06-01 SELL ACME 10 @ 13\n".to_string()),
    ]
    .into_iter()
    .collect();
    for k in generated.keys() {
        if !names.iter().any(|n| n == k) {
            names.push(k.to_string());
        }
    }
    let part = names
        .par_iter()
        .fold(Acc::new, |mut acc, name| {
            let text = if let Some(t) = generated.get(name.as_str()) { t.clone() } else { std::fs::read_to_string(format!("{dir}/{name}.cgt")).unwrap_or_default() };
            if text.trim().is_empty() || mcx::refparse::parse(&text).map(|t| t.is_empty()).unwrap_or(true) {
                acc.bump("fixtures:empty-skipped");
                return acc;
            }
            let sc = Scratch::new();
            sc.write("in.cgt", text.as_bytes());
            let passes: Vec<Option<i32>> = if name.starts_with("generated:year-filtered") { vec![None, Some(2023), Some(2024), Some(2025)] } else { vec![None] };
            let mut m = Mcp::start(&sc);
            for (pass_no, year) in passes.iter().enumerate() {
            let first_id = (1 + pass_no * 1000).to_string();
            let cli = match year {
                None => run_tool(&["report", "in.cgt", "--format", "json"], &sc, crate::cli::T),
                Some(y) => run_tool(&["report", "in.cgt", "--format", "json", "--year", &y.to_string()], &sc, crate::cli::T),
            };
            let args = match year {
                None => json!({"transactions": text}),
                Some(y) => json!({"transactions": text, "year": y}),
            };
            m.send_raw(&mcx::proc::tool_call(&json!(1 + pass_no * 1000), "calculate_report", args));
            if year.is_some() {
                acc.bump("fixtures:one-year-reports-compared");
            }
            acc.states += 1;
            acc.validated += 1;
            acc.bump("fixtures:compared");
            let inp = Input::Json(json!({"fixture": name, "year": year}));
            let push = |acc: &mut Acc, clause: &str, detail: String| acc.violation(&ctx.findings, "C20", Violation { clause: clause.into(), input: inp.clone(), detail, context: json!({"profile": "fixtures"}) });
            if !m.wait_for(&[first_id.clone()], Duration::from_secs(20)) {
                push(&mut acc, "request-not-answered-exactly-once", "calculate_report not answered within 20 s".into());
                return acc;
            }
            let mcp_rep = tool_text(&m.got[&first_id][0]).ok().and_then(|s| serde_json::from_str::<Value>(&s).ok());
            let cli_rep: Option<Value> = if cli.ok() { serde_json::from_str(&cli.out()).ok() } else { None };
            match (&cli_rep, &mcp_rep) {
                (Some(c), Some(mv)) => {
                    if c["tax_years"] != mv["tax_years"] || c["holdings"] != mv["holdings"] {
                        push(&mut acc, "mcp-differs-from-cli", "calculate_report and `cgt-tool report --format json` differ in tax_years/holdings".into());
                    }
                    // explain every disposal
                    let mut ids = vec![];
                    let mut want = vec![];
                    for y in c["tax_years"].as_array().cloned().unwrap_or_default() {
                        for d in y["disposals"].as_array().cloned().unwrap_or_default() {
                            let id = json!(100 + pass_no * 1000 + ids.len());
                            m.send_raw(&mcx::proc::tool_call(&id, "explain_matching", json!({"transactions": text, "disposal_date": d["date"], "ticker": d["ticker"].as_str().unwrap_or("").to_lowercase()})));
                            ids.push(id.to_string());
                            want.push(d);
                        }
                    }
                    if !ids.is_empty() {
                        acc.add("fixtures:disposals-explained", ids.len() as u64);
                        if !m.wait_for(&ids, Duration::from_secs(30)) {
                            push(&mut acc, "request-not-answered-exactly-once", "explain_matching requests not all answered within 30 s".into());
                            return acc;
                        }
                        for (id, d) in ids.iter().zip(want.iter()) {
                            match tool_text(&m.got[id][0]).ok().and_then(|s| serde_json::from_str::<Value>(&s).ok()) {
                                None => push(&mut acc, "explain-cannot-explain-listed-disposal", format!("explain_matching fails for {} {}", d["date"], d["ticker"])),
                                Some(e) => {
                                    let legs = e["matches"].as_array().map(|a| a.len()).unwrap_or(0);
                                    let wl = d["matches"].as_array().map(|a| a.len()).unwrap_or(0);
                                    let same_rules = e["matches"].as_array().cloned().unwrap_or_default().iter().zip(d["matches"].as_array().cloned().unwrap_or_default().iter()).all(|(a, b)| {
                                        let ra = a["rule"].as_str().unwrap_or("").replace([' ', '&'], "").to_lowercase();
                                        let rb = b["rule"].as_str().unwrap_or("").to_lowercase();
                                        let pence = |x: &Value| -> Option<rust_decimal::Decimal> {
                                            use std::str::FromStr;
                                            x.as_str().and_then(|t| rust_decimal::Decimal::from_str(t).ok()).map(|d| d.round_dp_with_strategy(2, rust_decimal::RoundingStrategy::MidpointAwayFromZero))
                                        };
                                        (ra == rb || (ra == "bedbreakfast" && rb == "bedandbreakfast"))
                                            && a["quantity"] == b["quantity"]
                                            && a.get("acquisition_date").and_then(|x| x.as_str()) == b.get("acquisition_date").and_then(|x| x.as_str())
                                            && pence(&a["allowable_cost"]) == pence(&b["allowable_cost"])
                                            && pence(&a["gain_or_loss"]) == pence(&b["gain_or_loss"])
                                    });
                                    if legs != wl || !same_rules || e["quantity"] != d["quantity"] {
                                        push(&mut acc, "explain-differs-from-report", format!("explain_matching for {} {} lists {:?}, the report lists {:?}", d["date"], d["ticker"], e["matches"], d["matches"]));
                                    }
                                }
                            }
                        }
                    }
                }
                (None, None) => acc.bump("fixtures:both-refuse"),
                _ => push(&mut acc, "mcp-differs-from-cli", format!("one of CLI/MCP fails and the other does not (cli ok {}, mcp ok {}): {}", cli_rep.is_some(), mcp_rep.is_some(), cli.err().chars().take(200).collect::<String>())),
            }
            }
            let _ = m.finish();
            acc
        })
        .reduce(Acc::new, Acc::merge);
    let merged = Acc::merge(std::mem::take(acc), part);
    *acc = merged;
}

/// Bursts: n requests written to the server in ONE batch (all in flight at once), on the largest fixture ledger, for
/// each tool alone and for a mix; every id must be answered exactly once with the body the same request gets when it
/// is sent alone and awaited. The in-flight count is the bound that is iterated.
fn bursts(ctx: &Ctx, acc: &mut Acc, sizes: &[usize]) {
    let synthetic = std::fs::read_to_string("/repo/tests/inputs/SyntheticComplex.cgt").unwrap_or_else(|_| machinery_failure("tests/inputs/SyntheticComplex.cgt missing"));
    // a long ledger (each calculation takes long enough for the requests of a burst to overlap): eight years of
    // purchases and sales of one security every other day
    let mut long = String::new();
    for year in 2016..2024 {
        for month in 1..=12 {
            for (k, day) in (1..=27).step_by(2).enumerate() {
                if k % 2 == 0 {
                    long.push_str(&format!("{year}-{month:02}-{day:02} BUY ACME 10 @ {}.{day:02} FEES 1\n", 100 + month));
                } else {
                    long.push_str(&format!("{year}-{month:02}-{day:02} SELL ACME 5 @ {}.{day:02} FEES 1\n", 105 + month));
                }
            }
        }
    }
    for (label, text) in [("tests/inputs/SyntheticComplex.cgt", synthetic), ("generated: 8 years, a trade every other day", long)] {
        bursts_on(ctx, acc, sizes, label, &text);
    }
}

fn bursts_on(ctx: &Ctx, acc: &mut Acc, sizes: &[usize], ledger_label: &str, text: &str) {
    let sc = Scratch::new();
    sc.write("in.cgt", text.as_bytes());
    let cli = run_tool(&["report", "in.cgt", "--format", "json"], &sc, crate::cli::T);
    let rep: Value = serde_json::from_str(&cli.out()).unwrap_or_else(|_| machinery_failure("cannot read the CLI report of the burst ledger"));
    let mut disposals: Vec<(Value, Value)> = vec![];
    for y in rep["tax_years"].as_array().cloned().unwrap_or_default() {
        for d in y["disposals"].as_array().cloned().unwrap_or_default() {
            disposals.push((d["date"].clone(), d["ticker"].clone()));
        }
    }
    if disposals.len() < 5 {
        machinery_failure("the burst ledger lists fewer than 5 disposals");
    }
    let dsl_json = "[{\"date\":\"2024-01-15\",\"ticker\":\"aapl\",\"action\":\"buy\",\"amount\":\"1\",\"price\":\"2\"}]";
    let mk = |kind: &str, i: usize| -> Value {
        match kind {
            "calculate_report" => call("calculate_report", json!({"transactions": text})),
            "explain_matching" => {
                let (d, t) = &disposals[i % disposals.len()];
                call("explain_matching", json!({"transactions": text, "disposal_date": d, "ticker": t}))
            }
            "parse_transactions" => call("parse_transactions", json!({"transactions": text})),
            "convert_to_dsl" => call("convert_to_dsl", json!({"transactions": dsl_json})),
            "get_fx_rate" => call("get_fx_rate", json!({"currency": "USD", "year": 2020 + (i % 5), "month": 1 + (i % 12)})),
            "resources/list" => json!({"method": "resources/list"}),
            _ => machinery_failure("burst kind"),
        }
    };
    let kinds = ["calculate_report", "explain_matching", "parse_transactions", "convert_to_dsl", "get_fx_rate", "resources/list", "mixed"];
    let all = ["calculate_report", "explain_matching", "parse_transactions", "convert_to_dsl", "get_fx_rate", "resources/list"];
    let jobs: Vec<(&str, usize)> = kinds.iter().flat_map(|k| sizes.iter().map(move |n| (*k, *n))).collect();
    let part = jobs
        .par_iter()
        .fold(Acc::new, |mut acc, (kind, n)| {
            let bodies: Vec<Value> = (0..*n).map(|i| if *kind == "mixed" { mk(all[i % all.len()], i / all.len()) } else { mk(kind, i) }).collect();
            // reference: the distinct bodies, one at a time, each awaited, in a session of their own
            let mut solo: BTreeMap<String, String> = BTreeMap::new();
            {
                let sc = Scratch::new();
                sc.all_years_config();
                let mut m = Mcp::start(&sc);
                let mut k = 0;
                for b in &bodies {
                    let key = b.to_string();
                    if solo.contains_key(&key) {
                        continue;
                    }
                    k += 1;
                    let mut r = b.clone();
                    r["jsonrpc"] = json!("2.0");
                    r["id"] = json!(k);
                    m.send_raw(&r.to_string());
                    if !m.wait_for(&[k.to_string()], Duration::from_secs(30)) {
                        acc.violation(&ctx.findings, "C20", Violation { clause: "request-not-answered-exactly-once".into(), input: Input::Json(json!({"requests": [kind]})), detail: format!("a single awaited {kind} request on the ledger '{ledger_label}' got no response within 30 s"), context: json!({"profile": "burst-reference"}) });
                        let _ = m.finish();
                        return acc;
                    }
                    solo.insert(key, body(&m.got[&k.to_string()][0]));
                }
                let _ = m.finish();
            }
            let sc = Scratch::new();
            sc.all_years_config();
            let mut m = Mcp::start(&sc);
            let mut lines = vec![];
            let mut ids = vec![];
            for (i, b) in bodies.iter().enumerate() {
                let mut r = b.clone();
                r["jsonrpc"] = json!("2.0");
                r["id"] = json!(i + 1);
                lines.push(r.to_string());
                ids.push((i + 1).to_string());
            }
            m.send_batch(&lines);
            let ok = m.wait_for(&ids, Duration::from_secs(30));
            acc.states += 1;
            acc.validated += *n as u64;
            acc.bump("burst-sessions");
            acc.add("burst-requests", *n as u64);
            let inp = || Input::Json(json!({"burst_of": n, "kind": kind, "ledger": ledger_label}));
            let cx = json!({"profile": "burst", "in_flight": n, "kind": kind, "ledger": ledger_label});
            if !ok {
                let missing: Vec<&String> = ids.iter().filter(|i| !m.got.contains_key(*i)).collect();
                acc.violation(&ctx.findings, "C20", Violation { clause: "request-not-answered-exactly-once".into(), input: inp(), detail: format!("{} of {n} {kind} requests written in one batch got no response within 30 s (first missing id {:?})", missing.len(), missing.first()), context: cx.clone() });
            }
            for (i, id) in ids.iter().enumerate() {
                if let Some(v) = m.got.get(id) {
                    if v.len() != 1 {
                        acc.violation(&ctx.findings, "C20", Violation { clause: "request-not-answered-exactly-once".into(), input: inp(), detail: format!("request {id} of the burst got {} responses", v.len()), context: cx.clone() });
                    } else if Some(&body(&v[0])) != solo.get(&bodies[i].to_string()) {
                        acc.violation(&ctx.findings, "C20", Violation { clause: "answer-depends-on-history".into(), input: inp(), detail: format!("request {id} of a burst of {n} {kind} requests is answered differently than when sent alone"), context: cx.clone() });
                    }
                }
            }
            let alive = m.alive();
            let (code, _, _) = m.finish();
            if !alive || code != Some(0) {
                acc.violation(&ctx.findings, "C20", Violation { clause: "server-died-before-eof".into(), input: inp(), detail: format!("server alive before EOF: {alive}, exit {code:?}"), context: cx });
            }
            acc
        })
        .reduce(Acc::new, Acc::merge);
    let merged = Acc::merge(std::mem::take(acc), part);
    *acc = merged;
}

pub fn malformed_json_sweep(ctx: &Ctx, acc: &mut Acc, prop: &'static str) {
    let kinds: Vec<(&str, Box<dyn Fn(&str, &str) -> String + Sync>)> = vec![
        ("syntax error after the filler", Box::new(|a: &str, b: &str| format!(r#"[{{"date":"2024-01-15","ticker":"X","action":"BUY","amount":"1","note":"{a}","price":"2" "fees":"{b}"}}]"#))),
        ("unknown action", Box::new(|a: &str, b: &str| format!(r#"[{{"date":"2024-01-15","ticker":"X","note":"{a}","action":"FROB","amount":"1","price":"2","memo":"{b}"}}]"#))),
        ("missing field", Box::new(|a: &str, b: &str| format!(r#"[{{"date":"2024-01-15","ticker":"X","note":"{a}","action":"BUY","price":"2","memo":"{b}"}}]"#))),
        ("bad currency", Box::new(|a: &str, b: &str| format!(r#"[{{"date":"2024-01-15","ticker":"X","note":"{a}","action":"BUY","amount":"1","price":{{"amount":"2","currency":"ZZZ"}},"memo":"{b}"}}]"#))),
    ];
    let tools = ["parse_transactions", "calculate_report", "convert_to_dsl"];
    let jobs: Vec<(usize, usize)> = (0..kinds.len()).flat_map(|k| (0..tools.len()).map(move |t| (k, t))).collect();
    let part = jobs
        .par_iter()
        .fold(Acc::new, |mut acc, (k, t)| {
            let sc = Scratch::new();
            sc.all_years_config();
            let mut m = Mcp::start(&sc);
            let mut ids = vec![];
            let mut payloads = vec![];
            for pos in 0..150usize {
                for ch in ["\u{20ac}", "\u{e9}"] {
                    // filler of 150 ASCII bytes with one multi-byte character at `pos`, before and after the error site
                    let filler: String = (0..150).map(|i| if i == pos { ch.to_string() } else { "a".to_string() }).collect();
                    let payload = (kinds[*k].1)(&filler, &filler);
                    let id = json!(ids.len() + 1);
                    m.send_raw(&mcx::proc::tool_call(&id, tools[*t], json!({"transactions": payload})));
                    ids.push(id.to_string());
                    payloads.push(payload);
                }
            }
            let ok = m.wait_for(&ids, Duration::from_secs(20));
            acc.states += ids.len() as u64;
            acc.validated += ids.len() as u64;
            acc.add("malformed-json-requests", ids.len() as u64);
            if !ok {
                let missing: Vec<usize> = ids.iter().enumerate().filter(|(_, i)| !m.got.contains_key(*i)).map(|(n, _)| n).collect();
                let first = missing.first().copied().unwrap_or(0);
                acc.violation(&ctx.findings, prop, Violation { clause: "request-not-answered-exactly-once".into(), input: Input::Json(json!({"tool": tools[*t], "transactions": payloads[first]})), detail: format!("{} of {} malformed-JSON requests ({}) to {} got no response within 20 s; first: request #{}", missing.len(), ids.len(), kinds[*k].0, tools[*t], first + 1), context: json!({"profile": "malformed-json-sweep", "request": {"params": {"arguments": {"transactions": payloads[first]}}}}) });
            } else {
                for (n, i) in ids.iter().enumerate() {
                    if m.got[i].len() != 1 {
                        acc.violation(&ctx.findings, prop, Violation { clause: "request-not-answered-exactly-once".into(), input: Input::Json(json!({"tool": tools[*t], "transactions": payloads[n]})), detail: format!("{} responses", m.got[i].len()), context: json!({"profile": "malformed-json-sweep"}) });
                    } else if tool_text(&m.got[i][0]).is_ok() {
                        acc.violation(&ctx.findings, prop, Violation { clause: "malformed-input-accepted".into(), input: Input::Json(json!({"tool": tools[*t], "transactions": payloads[n]})), detail: format!("a malformed JSON ledger ({}) was answered with a result", kinds[*k].0), context: json!({"profile": "malformed-json-sweep"}) });
                    }
                }
            }
            let alive = m.alive();
            let (code, _, _) = m.finish();
            if !alive || code != Some(0) {
                acc.violation(&ctx.findings, prop, Violation { clause: "server-died-before-eof".into(), input: Input::Json(json!({"tool": tools[*t], "kind": kinds[*k].0})), detail: format!("server alive before EOF: {alive}, exit {code:?}"), context: json!({"profile": "malformed-json-sweep"}) });
            }
            acc
        })
        .reduce(Acc::new, Acc::merge);
    let merged = Acc::merge(std::mem::take(acc), part);
    *acc = merged;
}
