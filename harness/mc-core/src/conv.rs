//! C18 (Schwab conversion keeps every relevant row, emits valid DSL, order/chunk independent) and
//! C19 (RSU vest look-back) — exhaustive row sequences / award-file shapes against small reference maps.
use crate::ledger::Env;
use crate::preds;
use cgt_converter::BrokerConverter;
use cgt_converter::schwab::{SchwabConverter, SchwabInput};
use cgt_core::{Operation, Transaction};
use chrono::{Duration as CDuration, NaiveDate};
use mcx::alpha::{self, dec};
use mcx::observe::{Outcome, panic_msg};
use mcx::rat::Rat;
use mcx::refparse;
use mcx::run::{Acc, Ctx, Input, Tier, Violation};
use mcx::view::{self, CmpOpts, Level};
use rayon::prelude::*;
use rust_decimal::Decimal;
use serde_json::{Value, json};
use std::collections::BTreeMap;
use std::panic::{AssertUnwindSafe, catch_unwind};

fn us(d: NaiveDate) -> String {
    d.format("%m/%d/%Y").to_string()
}

#[derive(Clone, Debug, PartialEq)]
enum Kind {
    Buy,
    Sell,
    CancelSell,
    Rsu,
    Dividend,
    Withholding,
    Split,
    NonCgt,
    Unknown,
}

#[derive(Clone, Debug)]
struct Row {
    kind: Kind,
    json: Value,
    /// effective date (after "as of")
    date: NaiveDate,
    symbol: String,
    qty: Option<Decimal>,
    price: Option<Decimal>,
    fees: Decimal,
    amount: Option<Decimal>,
}

fn row(kind: Kind, action: &str, date_field: &str, date: NaiveDate, symbol: &str, desc: &str, qty: &str, price: &str, fees: &str, amount: &str) -> Row {
    let clean = |s: &str| -> Option<Decimal> {
        let t = s.trim();
        if t.is_empty() || t == "--" {
            return None;
        }
        Some(dec(&t.replace(['$', ','], "")))
    };
    Row {
        kind,
        json: json!({"Date": date_field, "Action": action, "Symbol": symbol, "Description": desc, "Quantity": qty, "Price": price, "Fees & Comm": fees, "Amount": amount}),
        date,
        symbol: symbol.to_string(),
        qty: clean(qty),
        price: clean(price),
        // the sign of a Schwab cell is the direction of the cash flow (the converter itself takes dividend and
        // withholding amounts by magnitude): fees of "-$0.03" are fees of 0.03
        fees: clean(fees).unwrap_or(Decimal::ZERO).abs(),
        amount: clean(amount),
    }
}

fn d1() -> NaiveDate {
    alpha::date(2024, 1, 10)
}
fn d2() -> NaiveDate {
    alpha::date(2024, 1, 12)
}
fn d3() -> NaiveDate {
    alpha::date(2024, 2, 20)
}

fn row_alphabet() -> Vec<Row> {
    let (a, b, c) = (d1(), d2(), d3());
    let asof = format!("{} as of {}", us(b), us(a));
    vec![
        row(Kind::Buy, "Buy", &us(a), a, "X", "BUY X", "10", "$100.50", "$1.00", "-$1,006.00"),
        row(Kind::Buy, "Buy", &us(b), b, "X", "BUY X", "5", "101", "", "-$505.00"),
        row(Kind::Buy, "Buy", &us(a), a, "Y", "BUY Y", "1,000", "$1,000.50", "--", ""),
        row(Kind::Sell, "Sell", &us(a), a, "X", "SELL X", "4", "$110", "$0.10", "$439.90"),
        row(Kind::Sell, "Sell", &us(b), b, "X", "SELL X", "4", "$110", "$0.10", "$439.90"),
        row(Kind::Sell, "Sell", &asof, a, "X", "SELL X", "4", "$110", "0.10", "$439.90"),
        // the same sale but for its fees: a Cancel Sell row quoting fees of $0.10 is not "identical" to this one
        row(Kind::Sell, "Sell", &us(a), a, "X", "SELL X", "4", "$110", "$0.20", "$439.80"),
        row(Kind::Sell, "Sell", &us(c), c, "X", "SELL X", "2.5", "$120.25", "", ""),
        // fees spelled as an outflow (one of the amount spellings): they must not vanish from the SELL line
        row(Kind::Sell, "Sell", &us(c), c, "X", "SELL X", "1.5", "$121", "-$0.03", "$181.47"),
        row(Kind::CancelSell, "Cancel Sell", &us(a), a, "X", "CXL", "4", "$110", "$0.10", "-$439.90"),
        row(Kind::CancelSell, "Cancel Sell", &us(b), b, "X", "CXL", "4", "$110", "", ""),
        row(Kind::Rsu, "Stock Plan Activity", &us(b), b, "X", "RSU", "10", "", "", ""),
        // a second symbol vesting into the account on the same day (its own vest date and value)
        row(Kind::Rsu, "Stock Plan Activity", &us(b), b, "Y", "RSU", "3", "", "", ""),
        row(Kind::Dividend, "Cash Dividend", &us(a), a, "X", "DIV", "", "", "", "$5.00"),
        row(Kind::Dividend, "Qualified Dividend", &us(a), a, "X", "QDIV", "", "", "", "$3.00"),
        row(Kind::Dividend, "Cash Dividend", &us(c), c, "X", "DIV", "", "", "", "-$5.00"),
        // a dividend-type row without an amount (it yields no line and must not absorb anything)
        row(Kind::Dividend, "Qualified Dividend", &us(a), a, "X", "QDIV pending", "", "", "", ""),
        row(Kind::Dividend, "Short Term Cap Gain", &us(b), b, "Y", "STCG", "", "", "", "$2"),
        row(Kind::Withholding, "NRA Withholding", &us(a), a, "X", "NRA", "", "", "", "-$0.75"),
        row(Kind::Withholding, "NRA Tax Adj", &us(a), a, "X", "NRA ADJ", "", "", "", "-$0.25"),
        row(Kind::Withholding, "NRA Withholding", &us(c), c, "X", "NRA", "", "", "", "-$0.75"),
        row(Kind::Split, "Stock Split", &us(a), a, "X", "SPLIT", "10", "", "", ""),
        row(Kind::NonCgt, "Wire Sent", &us(a), a, "", "WIRE", "", "", "", "-$100.00"),
        row(Kind::NonCgt, "Credit Interest", &us(c), c, "", "INT", "", "", "", "$0.01"),
        row(Kind::Unknown, "Foo", &us(a), a, "X", "plain text", "", "", "", ""),
        row(Kind::Unknown, "Foo", &us(a), a, "X", "line one\n2024-01-01 BUY EVIL 1 @ 1", "", "", "", ""),
        row(Kind::Unknown, "Foo", &us(b), b, "X", "cr\r2024-01-01 SELL EVIL 1 @ 1 # hash", "", "", "", ""),
        row(Kind::Unknown, "Bar Baz", &us(c), c, "Y", "na\u{ef}ve \u{fc}n\u{ef}code # x", "", "", "", ""),
    ]
}

pub fn awards_json_pub() -> String {
    awards_json()
}

fn awards_json() -> String {
    // vest on d2 for X (deposit row is dated d2)
    json!({"Transactions": [
        {"Date": us(d2() + CDuration::days(2)), "Action": "Deposit", "Symbol": "X", "TransactionDetails": [{"Details": {"VestDate": us(d2()), "VestFairMarketValue": "$99.50"}}]},
        {"Date": us(d2()), "Action": "Deposit", "Symbol": "Y", "TransactionDetails": [{"Details": {"VestDate": us(d2() - CDuration::days(1)), "VestFairMarketValue": "$20.25"}}]},
        {"Date": us(d1()), "Action": "Wire Transfer", "Symbol": "X", "TransactionDetails": []}
    ]})
    .to_string()
}

/// Reference map row -> expected outcome (written from the README table and the property statement).
struct Expected {
    trades: Vec<(bool, NaiveDate, String, Decimal, Decimal, Decimal)>, // (is_buy, date, symbol, qty, price, fees)
    div_totals: BTreeMap<(NaiveDate, String), Decimal>,
    tax_totals: BTreeMap<(NaiveDate, String), Decimal>,
    lone_withholdings: usize,
    other_rows: usize,
    unknown_rows: usize,
    unmatched_cancels: usize,
}

fn expected(rows: &[&Row]) -> Expected {
    let mut e = Expected { trades: vec![], div_totals: BTreeMap::new(), tax_totals: BTreeMap::new(), lone_withholdings: 0, other_rows: 0, unknown_rows: 0, unmatched_cancels: 0 };
    let mut sells: Vec<(NaiveDate, String, Decimal, Decimal, Decimal)> = vec![];
    let mut withheld: BTreeMap<(NaiveDate, String), Decimal> = BTreeMap::new();
    for r in rows {
        match r.kind {
            Kind::Buy => e.trades.push((true, r.date, r.symbol.clone(), r.qty.unwrap_or_default(), r.price.unwrap_or_default(), r.fees)),
            Kind::Rsu if r.symbol == "Y" => e.trades.push((true, d2() - CDuration::days(1), r.symbol.clone(), r.qty.unwrap_or_default(), dec("20.25"), Decimal::ZERO)),
            Kind::Rsu => e.trades.push((true, d2(), r.symbol.clone(), r.qty.unwrap_or_default(), dec("99.50"), Decimal::ZERO)),
            Kind::Sell => sells.push((r.date, r.symbol.clone(), r.qty.unwrap_or_default(), r.price.unwrap_or_default(), r.fees)),
            Kind::Dividend => {
                if let Some(a) = r.amount {
                    *e.div_totals.entry((r.date, r.symbol.clone())).or_default() += a.abs();
                }
            }
            Kind::Withholding => {
                if let Some(a) = r.amount {
                    *withheld.entry((r.date, r.symbol.clone())).or_default() += a.abs();
                }
            }
            Kind::Split | Kind::NonCgt => e.other_rows += 1,
            Kind::Unknown => {
                e.other_rows += 1;
                e.unknown_rows += 1;
            }
            Kind::CancelSell => {}
        }
    }
    for r in rows.iter().filter(|r| r.kind == Kind::CancelSell) {
        // "identical": same date, symbol, quantity and price — and, when the Cancel Sell row quotes fees and a sale with
        // exactly those fees exists, that sale (a sale that differs in its fees is not identical while an identical one
        // is there); otherwise any sale with the same date, symbol, quantity and price
        let same = |s: &(NaiveDate, String, Decimal, Decimal, Decimal)| s.0 == r.date && s.1 == r.symbol && Some(s.2) == r.qty && Some(s.3) == r.price;
        let quotes_fees = r.json["Fees & Comm"].as_str().map(|f| !f.trim().is_empty() && f.trim() != "--").unwrap_or(false);
        let exact = if quotes_fees { sells.iter().position(|s| same(s) && s.4 == r.fees) } else { None };
        if let Some(p) = exact.or_else(|| sells.iter().position(|s| same(s))) {
            sells.remove(p);
        } else {
            e.unmatched_cancels += 1;
        }
    }
    for s in sells {
        e.trades.push((false, s.0, s.1, s.2, s.3, s.4));
    }
    for (k, v) in withheld {
        if e.div_totals.contains_key(&k) {
            e.tax_totals.insert(k, v);
        } else {
            e.lone_withholdings += rows.iter().filter(|r| r.kind == Kind::Withholding && (r.date, r.symbol.clone()) == k).count();
        }
    }
    e
}

struct Conv {
    content: String,
    warnings: Vec<String>,
    skipped: usize,
}

fn convert(rows: &[&Row], awards: bool) -> Result<Result<Conv, String>, String> {
    let tx = json!({"BrokerageTransactions": rows.iter().map(|r| r.json.clone()).collect::<Vec<_>>()}).to_string();
    let input = SchwabInput { transactions_json: tx, awards_json: if awards { Some(awards_json()) } else { None } };
    match catch_unwind(AssertUnwindSafe(|| SchwabConverter::new().convert(&input))) {
        Err(p) => Err(panic_msg(p)),
        Ok(Err(e)) => Ok(Err(e.to_string())),
        Ok(Ok(o)) => Ok(Ok(Conv { content: o.cgt_content, warnings: o.warnings, skipped: o.skipped_count })),
    }
}

fn export_json(rows: &[&Row]) -> Value {
    json!({"BrokerageTransactions": rows.iter().map(|r| r.json.clone()).collect::<Vec<_>>()})
}

fn trade_key(t: &Transaction) -> Option<(bool, NaiveDate, String, String, String, String)> {
    match &t.operation {
        Operation::Buy { amount, price, fees } => Some((true, t.date, t.ticker.clone(), amount.normalize().to_string(), price.amount.normalize().to_string(), fees.amount.normalize().to_string())),
        Operation::Sell { amount, price, fees } => Some((false, t.date, t.ticker.clone(), amount.normalize().to_string(), price.amount.normalize().to_string(), fees.amount.normalize().to_string())),
        _ => None,
    }
}

/// Checks on one export in one row order. Returns the parsed transactions on success.
fn check_export(ctx: &Ctx, acc: &mut Acc, rows: &[&Row], label: &str) -> Option<Vec<Transaction>> {
    let has_rsu = rows.iter().any(|r| r.kind == Kind::Rsu);
    let input = || Input::Json(export_json(rows));
    let cx = json!({"profile": label});
    let push = |acc: &mut Acc, clause: &str, detail: String| {
        acc.violation(&ctx.findings, "C18", Violation { clause: clause.into(), input: input(), detail, context: cx.clone() });
    };
    let conv = match convert(rows, true) {
        Err(p) => {
            push(acc, "panic", p);
            return None;
        }
        Ok(Err(e)) => {
            push(acc, "well-formed-export-refused", format!("conversion failed: {e}"));
            return None;
        }
        Ok(Ok(c)) => c,
    };
    if !has_rsu {
        // the awards file must be irrelevant
        match convert(rows, false) {
            Ok(Ok(c2)) => {
                let strip = |s: &str| s.lines().filter(|l| !l.starts_with("# Converted:") && !l.starts_with("# Source files:")).collect::<Vec<_>>().join("\n");
                if strip(&c2.content) != strip(&conv.content) || c2.skipped != conv.skipped {
                    push(acc, "awards-file-changes-output", "an export without RSU rows converts differently with and without an awards file".into());
                }
            }
            _ => push(acc, "well-formed-export-refused", "conversion without awards file failed for an export without RSU rows".into()),
        }
    }
    let e = expected(rows);
    // 4. valid DSL, for BOTH the reference recogniser and the tool's own parser
    let parsed = match refparse::parse(&conv.content) {
        Err(err) => {
            push(acc, "output-not-valid-dsl", format!("line {} of the output is not DSL ({}): {:?}", err.line, err.why, mcx::refparse::split_lines(&conv.content).get(err.line - 1)));
            return None;
        }
        Ok(t) => t,
    };
    match cgt_core::parser::parse_file(&conv.content) {
        Ok(t) if t == parsed => {}
        Ok(_) => push(acc, "output-not-valid-dsl", "the tool's parser and the reference recogniser read the output differently".into()),
        Err(err) => {
            push(acc, "output-not-valid-dsl", format!("the tool's own parser rejects the output: {}", err.to_string().chars().take(200).collect::<String>()));
            return None;
        }
    }
    // chronological
    if parsed.windows(2).any(|w| w[0].date > w[1].date) {
        push(acc, "output-not-chronological", format!("dates: {:?}", parsed.iter().map(|t| t.date).collect::<Vec<_>>()));
    }
    // 1. trades
    let mut got: Vec<_> = parsed.iter().filter_map(trade_key).collect();
    got.sort();
    let mut want: Vec<_> = e.trades.iter().map(|(b, d, s, q, p, f)| (*b, *d, s.to_uppercase(), q.normalize().to_string(), p.normalize().to_string(), f.normalize().to_string())).collect();
    want.sort();
    if got != want {
        push(acc, "trades-differ", format!("BUY/SELL lines {got:?}, expected {want:?}"));
    }
    for t in &parsed {
        if let Operation::Buy { price, fees, .. } | Operation::Sell { price, fees, .. } = &t.operation {
            if price.currency.code() != "USD" || (!fees.amount.is_zero() && fees.currency.code() != "USD") {
                push(acc, "trades-differ", "Schwab amounts must be in USD".into());
            }
        }
    }
    // 2. dividends and same-day withholding keep their totals
    let mut dt: BTreeMap<(NaiveDate, String), Decimal> = BTreeMap::new();
    let mut tt: BTreeMap<(NaiveDate, String), Decimal> = BTreeMap::new();
    for t in &parsed {
        match &t.operation {
            Operation::Dividend { total_value, tax_paid } => {
                *dt.entry((t.date, t.ticker.clone())).or_default() += total_value.amount;
                if !tax_paid.amount.is_zero() {
                    *tt.entry((t.date, t.ticker.clone())).or_default() += tax_paid.amount;
                }
            }
            Operation::Buy { .. } | Operation::Sell { .. } => {}
            other => push(acc, "unexpected-line", format!("the converter emitted {other:?}")),
        }
    }
    let norm = |m: &BTreeMap<(NaiveDate, String), Decimal>| m.iter().map(|(k, v)| (k.clone(), v.normalize().to_string())).collect::<Vec<_>>();
    if norm(&dt) != norm(&e.div_totals) {
        push(acc, "dividend-totals", format!("dividend totals {:?}, expected {:?}", norm(&dt), norm(&e.div_totals)));
    }
    if norm(&tt) != norm(&e.tax_totals) {
        push(acc, "withholding-totals", format!("withholding totals {:?}, expected {:?}", norm(&tt), norm(&e.tax_totals)));
    }
    // 3. every other row is counted as skipped, or surfaced as a comment and a warning
    let comment_lines = mcx::refparse::split_lines(&conv.content).iter().filter(|l| l.trim_start().starts_with('#')).count();
    let _ = comment_lines;
    if conv.skipped < e.other_rows {
        push(acc, "row-disappears-silently", format!("{} rows are neither trades nor dividends nor withholdings but skipped_count is {}", e.other_rows, conv.skipped));
    }
    if conv.warnings.iter().filter(|w| w.contains("Unknown Schwab action")).count() < e.unknown_rows {
        push(acc, "row-disappears-silently", format!("{} unknown-action rows but {} warnings", e.unknown_rows, conv.warnings.len()));
    }
    if e.unmatched_cancels > 0 && conv.warnings.iter().filter(|w| w.contains("Cancel Sell")).count() < e.unmatched_cancels {
        push(acc, "row-disappears-silently", "an unmatched Cancel Sell row produced no warning".into());
    }
    if e.lone_withholdings > 0 {
        acc.bump("shape:withholding-without-same-day-dividend");
        let surfaced = conv.skipped >= e.other_rows + e.lone_withholdings || conv.warnings.iter().any(|w| w.to_lowercase().contains("withh") || w.to_lowercase().contains("tax"));
        if !surfaced {
            push(acc, "withholding-disappears-silently", format!("{} withholding row(s) without a same-day dividend are neither counted as skipped nor mentioned in a warning", e.lone_withholdings));
        }
    }
    Some(parsed)
}

fn visit_seq(ctx: &Ctx, env: &Env, acc: &mut Acc, alphabet: &[Row], idx: &[usize]) {
    let rows: Vec<&Row> = idx.iter().map(|&i| &alphabet[i]).collect();
    acc.states += 1;
    acc.sample(idx.len(), || export_json(&rows));
    // all row orders
    let perms = perms(idx.len());
    let mut results: Vec<(Vec<usize>, Option<Vec<Transaction>>)> = vec![];
    for p in &perms {
        let pr: Vec<&Row> = p.iter().map(|&i| rows[i]).collect();
        acc.validated += 1;
        acc.bump("transitions");
        let r = check_export(ctx, acc, &pr, "row-sequence");
        results.push((p.clone(), r));
    }
    for r in &rows {
        match r.kind {
            Kind::CancelSell => acc.bump("shape:cancel-sell"),
            Kind::Rsu => acc.bump("shape:rsu"),
            Kind::Unknown if r.json["Description"].as_str().map(|d| d.contains('\n') || d.contains('\r')).unwrap_or(false) => acc.bump("shape:line-break-in-description"),
            _ => {}
        }
    }
    // 5. row-order independence (multisets, totals, downstream report)
    let Some(base) = results[0].1.clone() else { return };
    let key = |t: &[Transaction]| {
        let mut tr: Vec<_> = t.iter().filter_map(trade_key).collect();
        tr.sort();
        let mut dv: BTreeMap<(NaiveDate, String), (Decimal, Decimal)> = BTreeMap::new();
        for x in t {
            if let Operation::Dividend { total_value, tax_paid } = &x.operation {
                let e = dv.entry((x.date, x.ticker.clone())).or_default();
                e.0 += total_value.amount;
                e.1 += tax_paid.amount;
            }
        }
        (tr, dv.into_iter().map(|(k, v)| (k, v.0.normalize().to_string(), v.1.normalize().to_string())).collect::<Vec<_>>())
    };
    let kb = key(&base);
    let rb = env.calc(&base);
    for (p, r) in results.iter().skip(1) {
        let Some(t) = r else { continue };
        let order_cx = json!({"profile": "row-order", "row_order": p});
        if key(t) != kb {
            acc.violation(&ctx.findings, "C18", Violation { clause: "row-order-changes-output".into(), input: Input::Json(export_json(&rows)), detail: "trades or dividend/withholding totals differ between row orders".into(), context: order_cx.clone() });
        }
        if two_lots_class(t) {
            acc.bump("row-order:report-comparison-skipped (C06-F1/F2 class)");
            continue;
        }
        match (&rb, env.calc(t)) {
            (Outcome::Report(a), Outcome::Report(b)) => {
                let d = view::diff_reports(&view::view(&b), &view::view(a), Level::L1, &CmpOpts::default());
                if let Some(x) = d.first() {
                    acc.violation(&ctx.findings, "C18", Violation { clause: "row-order-changes-report".into(), input: Input::Json(export_json(&rows)), detail: x.detail.clone(), context: order_cx });
                }
            }
            (Outcome::Err { .. }, Outcome::Err { .. }) => {}
            _ => acc.violation(&ctx.findings, "C18", Violation { clause: "row-order-changes-report".into(), input: Input::Json(export_json(&rows)), detail: "acceptance of the downstream report depends on row order".into(), context: order_cx }),
        }
    }
    // 6. all cuts into date-disjoint chunks (by effective date)
    let mut dates: Vec<NaiveDate> = rows.iter().map(|r| r.date).collect();
    dates.sort();
    dates.dedup();
    if dates.len() >= 2 {
        for mask in 1..(1u32 << (dates.len() - 1)) {
            // chunk index of each date
            let mut chunk_of: BTreeMap<NaiveDate, usize> = BTreeMap::new();
            let mut c = 0;
            for (i, d) in dates.iter().enumerate() {
                chunk_of.insert(*d, c);
                if i + 1 < dates.len() && mask & (1 << i) != 0 {
                    c += 1;
                }
            }
            let mut all: Vec<Transaction> = vec![];
            let mut ok = true;
            for ci in 0..=c {
                let part: Vec<&Row> = rows.iter().copied().filter(|r| chunk_of[&r.date] == ci).collect();
                if part.is_empty() {
                    continue;
                }
                match convert(&part, true) {
                    Ok(Ok(cv)) => match refparse::parse(&cv.content) {
                        Ok(t) => all.extend(t),
                        Err(_) => ok = false,
                    },
                    _ => ok = false,
                }
            }
            acc.validated += 1;
            acc.bump("chunk-cuts");
            if !ok {
                continue; // already reported by check_export on the chunk's own rows in another state
            }
            let cx = json!({"profile": "chunks", "cut_mask": mask});
            if key(&all) != kb {
                acc.violation(&ctx.findings, "C18", Violation { clause: "chunks-differ-from-whole".into(), input: Input::Json(export_json(&rows)), detail: "converting date-disjoint chunks yields different trades/dividend totals than converting the whole export".into(), context: cx.clone() });
            }
            if !two_lots_class(&all) {
                if let (Outcome::Report(a), Outcome::Report(b)) = (&rb, env.calc(&all)) {
                    let d = view::diff_reports(&view::view(&b), &view::view(a), Level::L1, &CmpOpts::default());
                    if let Some(x) = d.first() {
                        acc.violation(&ctx.findings, "C18", Violation { clause: "chunks-differ-from-whole".into(), input: Input::Json(export_json(&rows)), detail: x.detail.clone(), context: cx });
                    }
                }
            }
        }
    }
}

/// ledgers in which C06's open findings (order-dependent lots) apply; report comparison across orders is left to C06
fn two_lots_class(t: &[Transaction]) -> bool {
    t.iter().enumerate().any(|(i, x)| {
        matches!(x.operation, Operation::Buy { .. }) && t.iter().skip(i + 1).any(|y| matches!(y.operation, Operation::Buy { .. }) && y.date == x.date && y.ticker == x.ticker && trade_key(y) != trade_key(x))
    })
}

fn perms(n: usize) -> Vec<Vec<usize>> {
    let mut out = vec![];
    let mut a: Vec<usize> = (0..n).collect();
    fn rec(k: usize, a: &mut Vec<usize>, out: &mut Vec<Vec<usize>>) {
        if k == a.len() {
            out.push(a.clone());
            return;
        }
        for i in k..a.len() {
            a.swap(k, i);
            rec(k + 1, a, out);
            a.swap(k, i);
        }
    }
    rec(0, &mut a, &mut out);
    out
}

pub fn c18(tier: Tier) -> i32 {
    let mut ctx = Ctx::new("C18", tier, preds::all());
    let env = Env::new();
    let alphabet = row_alphabet();
    let k = match tier {
        Tier::Quick => 4,
        Tier::Thorough => 5,
    };
    // all multisets of rows of size <= k (each visited with all its row orders)
    let n = alphabet.len();
    let mut seqs: Vec<Vec<usize>> = vec![];
    fn gen_seqs(n: usize, k: usize, cur: &mut Vec<usize>, out: &mut Vec<Vec<usize>>) {
        if !cur.is_empty() {
            out.push(cur.clone());
        }
        if cur.len() == k {
            return;
        }
        let start = *cur.last().unwrap_or(&0);
        for i in start..n {
            cur.push(i);
            gen_seqs(n, k, cur, out);
            cur.pop();
        }
    }
    gen_seqs(n, k, &mut vec![], &mut seqs);
    let ctxr: &Ctx = &ctx;
    let mut acc = seqs
        .par_iter()
        .fold(Acc::new, |mut acc, s| {
            visit_seq(ctxr, &env, &mut acc, &alphabet, s);
            acc
        })
        .reduce(Acc::new, Acc::merge);
    eprintln!("  [C18] {} row multisets, {} conversions", acc.states, acc.validated);
    // calendar positions: a Buy, a Sell and a dividend row dated on every day of 2018-2026 (each export is one day)
    {
        let (from, to) = match tier {
            Tier::Quick => (alpha::date(2018, 1, 1), alpha::date(2026, 12, 31)),
            Tier::Thorough => (alpha::date(2000, 1, 1), alpha::date(2035, 12, 31)),
        };
        let mut days = vec![];
        let mut d = from;
        while d <= to {
            days.push(d);
            d += CDuration::days(1);
        }
        let part = days
            .par_iter()
            .fold(Acc::new, |mut acc, d| {
                let rows = vec![
                    row(Kind::Buy, "Buy", &us(*d), *d, "X", "BUY X", "10", "$100.50", "$1.00", ""),
                    row(Kind::Sell, "Sell", &us(*d), *d, "X", "SELL X", "4", "$110", "$0.10", ""),
                    row(Kind::Dividend, "Cash Dividend", &us(*d), *d, "X", "DIV", "", "", "", "$5.00"),
                ];
                let refs: Vec<&Row> = rows.iter().collect();
                acc.states += 1;
                acc.bump("calendar-exports");
                let _ = check_export(ctxr, &mut acc, &refs, "calendar");
                acc
            })
            .reduce(Acc::new, Acc::merge);
        acc = Acc::merge(acc, part);
    }
    {
        // long exports (5..100 purchases, four row orders, a comment / cancel row at every position)
        let part = long_exports(&ctx, "C18");
        acc = Acc::merge(acc, part);
        ctx.require(acc.get("converter:long-exports") > 1000, "no long export was converted");
    }
    crate::cli::c18_cli(&mut ctx, &mut acc);
    for key in ["shape:cancel-sell", "shape:rsu", "shape:line-break-in-description", "shape:withholding-without-same-day-dividend", "chunk-cuts"] {
        ctx.require(acc.get(key) > 0, &format!("no export exhibited {key}"));
    }
    ctx.bound = json!({"row_alphabet": n, "max_rows": k});
    ctx.alphabets.push(json!({"rows": alphabet.iter().map(|r| r.json.clone()).collect::<Vec<_>>(), "awards": serde_json::from_str::<Value>(&awards_json()).unwrap_or(Value::Null)}));
    ctx.explanation = "States are Schwab exports: every multiset of at most k rows over a 24-row alphabet (Buy/Sell with $, commas, blanks, '--', plain and 'as of' dates; Cancel Sell with and without partner; RSU deposit; four dividend actions incl. negative and blank amounts; NRA withholding/adjustment with and without same-day dividend; Stock Split; non-CGT actions; unknown actions whose description contains LF, CR, '#', non-ASCII). Each is converted by the real SchwabConverter in ALL row orders; the output is parsed by the reference recogniser and by the tool's parser and compared with a reference row->line map (trades multiset after cancels, dividend and same-day withholding totals, skipped/warning accounting, chronological valid DSL); all row orders must agree (trades, totals, downstream report figures); every cut into date-disjoint chunks must reproduce the whole.".into();
    ctx.assumptions = vec!["symbols alphanumeric, quantities/prices non-negative (the statement's validity clause)".into(), "chunks are cut by effective ('as of') date".into(), "report comparison across row orders at level L1 and skipped where C06's open findings apply".into()];
    ctx.finish(&acc, "model_checking")
}


/// C15: the converter as an entry point — every multiset of at most k rows of the C18 row alphabet, in every row order,
/// with and without an awards file: `convert` must return (a result or an error), never panic.
/// Long exports (the bound iterated here is the number of rows): n one-per-day Buy rows in four row orders, with one
/// row that becomes a comment (Stock Split, unknown action), a Cancel Sell + its Sell, or nothing extra, inserted at
/// every position. `prop` = "C15": the conversion must not panic; "C18": it must also yield exactly the n BUY lines in
/// chronological order, whatever the row order.
pub fn long_exports(ctx: &Ctx, prop: &str) -> Acc {
    let sizes: [usize; 12] = [5, 12, 19, 20, 21, 22, 24, 32, 33, 40, 64, 100];
    let start = alpha::date(2022, 1, 3);
    let mut cells: Vec<(usize, usize, usize, usize)> = vec![]; // (n, order, special, position)
    for &n in &sizes {
        for order in 0..4 {
            for special in 0..4 {
                if special == 0 {
                    cells.push((n, order, special, 0));
                } else {
                    for pos in 0..=n {
                        cells.push((n, order, special, pos));
                    }
                }
            }
        }
    }
    cells
        .par_iter()
        .fold(Acc::new, |mut acc, &(n, order, special, pos)| {
            let mut rows: Vec<Value> = (0..n)
                .map(|i| {
                    let d = start + CDuration::days(i as i64);
                    json!({"Date": us(d), "Action": "Buy", "Symbol": "X", "Description": "BUY X", "Quantity": format!("{}", 1 + i % 7), "Price": format!("${}.25", 100 + i), "Fees & Comm": "$0.10", "Amount": ""})
                })
                .collect();
            match order {
                0 => rows.reverse(), // newest first, as Schwab exports are
                1 => {}              // oldest first
                2 => {
                    // zigzag: newest, oldest, second newest, second oldest, ...
                    let mut z = vec![];
                    let (mut a, mut b) = (0usize, n);
                    while a < b {
                        b -= 1;
                        z.push(rows[b].clone());
                        if a < b {
                            z.push(rows[a].clone());
                            a += 1;
                        }
                    }
                    rows = z;
                }
                _ => rows.rotate_left(n / 2),
            }
            let mid = start + CDuration::days((n / 2) as i64);
            let extra: Vec<Value> = match special {
                1 => vec![json!({"Date": us(mid), "Action": "Stock Split", "Symbol": "X", "Description": "SPLIT", "Quantity": "10", "Price": "", "Fees & Comm": "", "Amount": ""})],
                2 => vec![json!({"Date": us(mid), "Action": "Security Transfer", "Symbol": "X", "Description": "moved", "Quantity": "", "Price": "", "Fees & Comm": "", "Amount": ""})],
                3 => vec![
                    json!({"Date": us(mid), "Action": "Cancel Sell", "Symbol": "X", "Description": "CXL", "Quantity": "1", "Price": "$150", "Fees & Comm": "", "Amount": ""}),
                    json!({"Date": us(mid), "Action": "Sell", "Symbol": "X", "Description": "SELL X", "Quantity": "1", "Price": "$150", "Fees & Comm": "", "Amount": ""}),
                ],
                _ => vec![],
            };
            for (k, e) in extra.into_iter().enumerate() {
                rows.insert((pos + k).min(rows.len()), e);
            }
            let export = json!({"BrokerageTransactions": rows});
            let input = SchwabInput { transactions_json: export.to_string(), awards_json: None };
            acc.states += 1;
            acc.validated += 1;
            acc.bump("converter:long-exports");
            let order_name = ["newest first", "oldest first", "zigzag", "rotated"][order];
            let extra_name = ["none", "Stock Split", "unknown action", "Cancel Sell + Sell"][special];
            let cx = json!({"profile": "long-exports", "rows": n, "row_order": order_name, "extra_row": extra_name, "position": pos});
            match catch_unwind(AssertUnwindSafe(|| SchwabConverter::new().convert(&input))) {
                Err(p) => acc.violation(&ctx.findings, prop, Violation { clause: "panic".into(), input: Input::Json(export), detail: format!("SchwabConverter::convert panicked: {}", panic_msg(p)), context: cx }),
                Ok(Err(e)) => acc.violation(&ctx.findings, prop, Violation { clause: if prop == "C15" { "panic".into() } else { "trades-differ".into() }, input: Input::Json(export), detail: format!("a well-formed export of {n} purchases is refused: {e}"), context: cx }),
                Ok(Ok(o)) => {
                    if prop == "C18" {
                        match cgt_core::parser::parse_file(&o.cgt_content) {
                            Err(e) => acc.violation(&ctx.findings, prop, Violation { clause: "output-does-not-parse".into(), input: Input::Json(export), detail: e.to_string(), context: cx }),
                            Ok(txs) => {
                                let dates: Vec<NaiveDate> = txs.iter().map(|t| t.date).collect();
                                let buys = txs.iter().filter(|t| matches!(t.operation, cgt_core::Operation::Buy { .. })).count();
                                if buys != n || txs.len() != n {
                                    acc.violation(&ctx.findings, prop, Violation { clause: "trades-differ".into(), input: Input::Json(export), detail: format!("{n} Buy rows (and a cancelled sale) gave {} transactions, {buys} of them BUY", txs.len()), context: cx });
                                } else if dates.windows(2).any(|w| w[0] > w[1]) {
                                    acc.violation(&ctx.findings, prop, Violation { clause: "output-not-chronological".into(), input: Input::Json(export), detail: "dates of the output lines are not ascending".into(), context: cx });
                                }
                            }
                        }
                    }
                }
            }
            acc
        })
        .reduce(Acc::new, Acc::merge)
}

pub fn c15_row_sequences(ctx: &Ctx, k: usize) -> Acc {
    let alphabet = row_alphabet();
    let n = alphabet.len();
    let mut seqs: Vec<Vec<usize>> = vec![];
    fn gen_rows(n: usize, k: usize, cur: &mut Vec<usize>, out: &mut Vec<Vec<usize>>) {
        if !cur.is_empty() {
            out.push(cur.clone());
        }
        if cur.len() == k {
            return;
        }
        let start = *cur.last().unwrap_or(&0);
        for i in start..n {
            cur.push(i);
            gen_rows(n, k, cur, out);
            cur.pop();
        }
    }
    gen_rows(n, k, &mut vec![], &mut seqs);
    seqs.par_iter()
        .fold(Acc::new, |mut acc, idx| {
            let rows: Vec<&Row> = idx.iter().map(|&i| &alphabet[i]).collect();
            acc.states += 1;
            for p in perms(idx.len()) {
                let pr: Vec<&Row> = p.iter().map(|&i| rows[i]).collect();
                for awards in [true, false] {
                    acc.validated += 1;
                    acc.bump("transitions");
                    acc.bump("converter:row-sequences");
                    if let Err(m) = convert(&pr, awards) {
                        acc.violation(&ctx.findings, "C15", Violation { clause: "panic".into(), input: Input::Json(export_json(&pr)), detail: format!("SchwabConverter::convert panicked: {m}"), context: json!({"profile": "converter-row-sequences", "awards_file": awards}) });
                    }
                }
            }
            acc
        })
        .reduce(Acc::new, Acc::merge)
}

// ------------------------------------------------------------------------------------------------ C19

pub fn c19(tier: Tier) -> i32 {
    let mut ctx = Ctx::new("C19", tier, preds::all());
    let deposits = [alpha::date(2024, 1, 3), alpha::date(2024, 3, 4), alpha::date(2023, 3, 3), alpha::date(2025, 1, 1), alpha::date(2024, 12, 31)];
    let offsets: Vec<i64> = (-9..=2).collect();
    #[derive(Clone, Copy, Debug, PartialEq)]
    enum Pat {
        AllVest,
        AllFallback,
        Alternate,
        BothVestFirst,
        BothFallbackFirst,
        /// a detail record with a vest value but no VestDate (the entry's own date is the vest date)
        VestValueOnly,
        /// the same record also carrying the fallback price: the vest value is preferred
        VestValueAndFallbackInOneRecord,
        /// one awards entry (dated three days after the vest) with two detail records: a fallback-price-only record,
        /// then the record carrying VestDate + VestFairMarketValue — the entry's vest date and value are the latter's
        MultiRecordFallbackThenVest,
        /// the same two records the other way round
        MultiRecordVestThenFallback,
    }
    let pats = [Pat::AllVest, Pat::AllFallback, Pat::Alternate, Pat::BothVestFirst, Pat::BothFallbackFirst, Pat::VestValueOnly, Pat::VestValueAndFallbackInOneRecord, Pat::MultiRecordFallbackThenVest, Pat::MultiRecordVestThenFallback];
    let jobs: Vec<(NaiveDate, u32)> = deposits.iter().flat_map(|d| (0..(1u32 << offsets.len())).map(move |m| (*d, m))).collect();
    let ctxr: &Ctx = &ctx;
    let mut acc = jobs
        .par_iter()
        .fold(Acc::new, |mut acc, (dep, mask)| {
            for pat in pats {
                for (lower, newest_first) in [(false, false), (true, false), (false, true)] {
                    let sym_file = if lower { "xyZ" } else { "XYZ" };
                    let sym_row = if lower { "Xyz" } else { "XYZ" };
                    let mut entries: Vec<Value> = vec![json!({"Date": us(*dep), "Action": "Wire Transfer", "Symbol": sym_file, "TransactionDetails": []}), json!({"Date": us(*dep), "Action": "Deposit", "Symbol": "OTHER", "TransactionDetails": [{"Details": {"VestDate": us(*dep), "VestFairMarketValue": "$1.11"}}]})];
                    // expected
                    let present: Vec<i64> = offsets.iter().enumerate().filter(|(i, _)| mask & (1 << i) != 0).map(|(_, o)| *o).collect();
                    let vest_val = |o: i64| dec(&format!("{}.25", 100 + o + 9));
                    let fb_val = |o: i64| dec(&format!("{}.75", 200 + o + 9));
                    for o in &present {
                        let d = *dep + CDuration::days(*o);
                        let vest = json!({"Date": us(d + CDuration::days(3)), "Action": "Lapse", "Symbol": sym_file, "TransactionDetails": [{"Details": {"VestDate": us(d), "VestFairMarketValue": format!("${}", vest_val(*o))}}]});
                        let fb = json!({"Date": us(d), "Action": "Deposit", "Symbol": sym_file, "TransactionDetails": [{"Details": {"FairMarketValuePrice": format!("${}", fb_val(*o))}}]});
                        match pat {
                            Pat::AllVest => entries.push(vest),
                            Pat::AllFallback => entries.push(fb),
                            Pat::Alternate => entries.push(if o.rem_euclid(2) == 0 { vest } else { fb }),
                            Pat::BothVestFirst => {
                                entries.push(vest);
                                entries.push(fb);
                            }
                            Pat::BothFallbackFirst => {
                                entries.push(fb);
                                entries.push(vest);
                            }
                            Pat::MultiRecordFallbackThenVest => entries.push(json!({"Date": us(d + CDuration::days(3)), "Action": "Lapse", "Symbol": sym_file, "TransactionDetails": [{"Details": {"FairMarketValuePrice": format!("${}", fb_val(*o))}}, {"Details": {"VestDate": us(d), "VestFairMarketValue": format!("${}", vest_val(*o))}}]})),
                            Pat::MultiRecordVestThenFallback => entries.push(json!({"Date": us(d + CDuration::days(3)), "Action": "Lapse", "Symbol": sym_file, "TransactionDetails": [{"Details": {"VestDate": us(d), "VestFairMarketValue": format!("${}", vest_val(*o))}}, {"Details": {"FairMarketValuePrice": format!("${}", fb_val(*o))}}]})),
                            Pat::VestValueOnly => entries.push(json!({"Date": us(d), "Action": "Lapse", "Symbol": sym_file, "TransactionDetails": [{"Details": {"VestFairMarketValue": format!("${}", vest_val(*o))}}]})),
                            Pat::VestValueAndFallbackInOneRecord => entries.push(json!({"Date": us(d), "Action": "Lapse", "Symbol": sym_file, "TransactionDetails": [{"Details": {"VestFairMarketValue": format!("${}", vest_val(*o)), "FairMarketValuePrice": format!("${}", fb_val(*o))}}]})),
                        }
                    }
                    // the awards file lists its entries oldest first or newest first (the order must not matter)
                    if newest_first {
                        entries[2..].reverse();
                    }
                    let exp_off: Option<i64> = if present.contains(&0) { Some(0) } else { present.iter().copied().filter(|o| (-7..=-1).contains(o)).max() };
                    let is_vest = |o: i64| match pat {
                        Pat::AllVest | Pat::BothVestFirst | Pat::BothFallbackFirst | Pat::VestValueOnly | Pat::VestValueAndFallbackInOneRecord | Pat::MultiRecordFallbackThenVest | Pat::MultiRecordVestThenFallback => true,
                        Pat::AllFallback => false,
                        Pat::Alternate => o.rem_euclid(2) == 0,
                    };
                    let awards = json!({"Transactions": entries}).to_string();
                    let tx = json!({"BrokerageTransactions": [{"Date": us(*dep), "Action": "Stock Plan Activity", "Symbol": sym_row, "Description": "RSU", "Quantity": "10", "Price": "", "Fees & Comm": "", "Amount": ""}]}).to_string();
                    let input = SchwabInput { transactions_json: tx.clone(), awards_json: Some(awards.clone()) };
                    acc.states += 1;
                    acc.validated += 1;
                    let res = catch_unwind(AssertUnwindSafe(|| SchwabConverter::new().convert(&input)));
                    let inp = || Input::Json(json!({"transactions": serde_json::from_str::<Value>(&tx).unwrap_or(Value::Null), "awards": serde_json::from_str::<Value>(&awards).unwrap_or(Value::Null)}));
                    let cx = json!({"profile": format!("{pat:?}"), "deposit": dep.to_string(), "offsets_present": present, "entries_listed": if newest_first { "newest first" } else { "oldest first" }, "variant": format!("{pat:?}")});
                    let push = |acc: &mut Acc, clause: &str, detail: String| {
                        acc.violation(&ctxr.findings, "C19", Violation { clause: clause.into(), input: inp(), detail, context: cx.clone() });
                    };
                    match res {
                        Err(p) => push(&mut acc, "panic", panic_msg(p)),
                        Ok(Err(e)) => {
                            let msg = e.to_string();
                            match exp_off {
                                Some(o) => push(&mut acc, "usable-entry-ignored", format!("an entry at offset {o} exists but conversion fails: {msg}")),
                                None => {
                                    acc.bump("refused-no-entry-in-window");
                                    if !(msg.to_uppercase().contains("XYZ") && msg.contains(&dep.format("%Y-%m-%d").to_string())) {
                                        push(&mut acc, "error-does-not-name-symbol-and-date", msg);
                                    }
                                }
                            }
                        }
                        Ok(Ok(o)) => {
                            let parsed = refparse::parse(&o.cgt_content).unwrap_or_default();
                            let buys: Vec<&Transaction> = parsed.iter().filter(|t| matches!(t.operation, Operation::Buy { .. })).collect();
                            match exp_off {
                                None => push(&mut acc, "cost-invented", format!("no entry on the deposit date or within 7 days before it, yet a BUY is emitted: {:?}", buys.first().map(|t| alpha::dsl_line(t)))),
                                Some(eo) => {
                                    let want_date = *dep + CDuration::days(eo);
                                    let want_price = if is_vest(eo) { vest_val(eo) } else { fb_val(eo) };
                                    if buys.len() != 1 {
                                        push(&mut acc, "wrong-entry", format!("{} BUY lines emitted", buys.len()));
                                    } else if let Operation::Buy { amount, price, .. } = &buys[0].operation {
                                        if buys[0].date != want_date {
                                            push(&mut acc, "wrong-entry", format!("BUY dated {} but the entry to use is at offset {eo} = {want_date}", buys[0].date));
                                        } else if price.amount != want_price {
                                            let clause = if matches!(pat, Pat::BothVestFirst | Pat::BothFallbackFirst | Pat::VestValueAndFallbackInOneRecord) && price.amount == fb_val(eo) { "fallback-price-preferred-over-vest-value" } else { "wrong-price" };
                                            push(&mut acc, clause, format!("BUY priced {} but the entry's {} is {want_price}", price.amount, if is_vest(eo) { "vest-date market value" } else { "fallback price" }));
                                        } else if *amount != dec("10") || buys[0].ticker != "XYZ" {
                                            push(&mut acc, "wrong-entry", format!("BUY line {}", alpha::dsl_line(buys[0])));
                                        } else {
                                            acc.bump(if eo == 0 { "matched-on-deposit-date" } else { "matched-by-look-back" });
                                            if eo == -7 {
                                                acc.bump("matched-at-exactly-7-days");
                                            }
                                        }
                                    }
                                }
                            }
                        }
                    }
                }
            }
            acc
        })
        .reduce(Acc::new, Acc::merge);
    // several deposit rows of one symbol in one export: each row is resolved on its own (both row orders)
    {
        let offs: [i64; 6] = [-2, 0, 1, 3, 5, 8];
        let gaps: [i64; 7] = [1, 2, 3, 5, 7, 8, 9];
        let dep = alpha::date(2024, 12, 27);
        // the second deposit is of the same symbol (a later date) or of another symbol (same or later date) whose
        // entries are the complementary set of dates with other values
        let jobs: Vec<(u32, i64, bool, bool)> = (0..(1u32 << offs.len()))
            .flat_map(|m| gaps.iter().flat_map(move |g| [(m, *g, false, false), (m, *g, true, false), (m, *g, false, true), (m, *g, true, true)]).chain([(m, 0, false, true), (m, 0, true, true)]))
            .collect();
        let part = jobs
            .par_iter()
            .fold(Acc::new, |mut acc, (mask, gap, newest_first, other_symbol)| {
                let present: Vec<i64> = offs.iter().enumerate().filter(|(i, _)| mask & (1 << i) != 0).map(|(_, o)| *o).collect();
                let present2: Vec<i64> = if *other_symbol { offs.iter().enumerate().filter(|(i, _)| mask & (1 << i) == 0).map(|(_, o)| *o).collect() } else { present.clone() };
                let sym2 = if *other_symbol { "ABC" } else { "XYZ" };
                let val = |o: i64| dec(&format!("{}.5", 100 + o + 9));
                let val2 = |o: i64| if *other_symbol { dec(&format!("{}.25", 200 + o + 9)) } else { val(o) };
                let mut entries: Vec<Value> = present.iter().map(|o| json!({"Date": us(dep + CDuration::days(*o + 2)), "Action": "Lapse", "Symbol": "XYZ", "TransactionDetails": [{"Details": {"VestDate": us(dep + CDuration::days(*o)), "VestFairMarketValue": format!("${}", val(*o))}}]})).collect();
                if *other_symbol {
                    entries.extend(present2.iter().map(|o| json!({"Date": us(dep + CDuration::days(*o + 2)), "Action": "Lapse", "Symbol": "ABC", "TransactionDetails": [{"Details": {"VestDate": us(dep + CDuration::days(*o)), "VestFairMarketValue": format!("${}", val2(*o))}}]})));
                    acc.bump("two-deposit-exports:two-symbols");
                }
                let d2 = dep + CDuration::days(*gap);
                let mk = |d: NaiveDate, sym: &str, q: &str| json!({"Date": us(d), "Action": "Stock Plan Activity", "Symbol": sym, "Description": "RSU", "Quantity": q, "Price": "", "Fees & Comm": "", "Amount": ""});
                let rows = if *newest_first { vec![mk(d2, sym2, "20"), mk(dep, "XYZ", "10")] } else { vec![mk(dep, "XYZ", "10"), mk(d2, sym2, "20")] };
                let tx = json!({"BrokerageTransactions": rows}).to_string();
                let awards = json!({"Transactions": entries}).to_string();
                // reference: each deposit on its own, among the entries of its own symbol
                let lookup = |d: NaiveDate, second: bool| -> Option<(NaiveDate, Decimal)> {
                    let set = if second { &present2 } else { &present };
                    let rel: Vec<i64> = set.iter().map(|o| (dep + CDuration::days(*o) - d).num_days()).collect();
                    let best = if rel.contains(&0) { Some(0) } else { rel.iter().copied().filter(|r| (-7..=-1).contains(r)).max() }?;
                    let o = set[rel.iter().position(|r| *r == best)?];
                    Some((d + CDuration::days(best), if second { val2(o) } else { val(o) }))
                };
                let want: Vec<Option<(NaiveDate, Decimal, Decimal)>> = vec![lookup(dep, false).map(|(d, p)| (d, p, dec("10"))), lookup(d2, true).map(|(d, p)| (d, p, dec("20")))];
                acc.states += 1;
                acc.validated += 1;
                acc.bump("two-deposit-exports");
                let res = catch_unwind(AssertUnwindSafe(|| SchwabConverter::new().convert(&SchwabInput { transactions_json: tx.clone(), awards_json: Some(awards.clone()) })));
                let inp = || Input::Json(json!({"transactions": serde_json::from_str::<Value>(&tx).unwrap_or(Value::Null), "awards": serde_json::from_str::<Value>(&awards).unwrap_or(Value::Null)}));
                let cx = json!({"profile": "two-deposits", "variant": "two deposit rows"});
                match res {
                    Err(p) => acc.violation(&ctxr.findings, "C19", Violation { clause: "panic".into(), input: inp(), detail: panic_msg(p), context: cx }),
                    Ok(Err(e)) => {
                        if want.iter().all(|w| w.is_some()) {
                            acc.violation(&ctxr.findings, "C19", Violation { clause: "usable-entry-ignored".into(), input: inp(), detail: format!("both deposits have a usable entry but conversion fails: {e}"), context: cx });
                        }
                    }
                    Ok(Ok(o)) => {
                        if want.iter().any(|w| w.is_none()) {
                            acc.violation(&ctxr.findings, "C19", Violation { clause: "cost-invented".into(), input: inp(), detail: "a deposit has no entry on its date or within 7 days before it, yet the conversion succeeds".into(), context: cx });
                        } else {
                            let parsed = refparse::parse(&o.cgt_content).unwrap_or_default();
                            let mut got: Vec<(NaiveDate, String, String)> = parsed.iter().filter_map(|t| if let Operation::Buy { amount, price, .. } = &t.operation { Some((t.date, price.amount.normalize().to_string(), amount.normalize().to_string())) } else { None }).collect();
                            got.sort();
                            let mut exp: Vec<(NaiveDate, String, String)> = want.iter().flatten().map(|(d, p, q)| (*d, p.normalize().to_string(), q.normalize().to_string())).collect();
                            exp.sort();
                            if got != exp {
                                acc.violation(&ctxr.findings, "C19", Violation { clause: "wrong-entry".into(), input: inp(), detail: format!("BUY lines (date, price, quantity) {got:?}, expected {exp:?}"), context: cx });
                            } else {
                                acc.bump("two-deposits-resolved-independently");
                            }
                        }
                    }
                }
                acc
            })
            .reduce(Acc::new, Acc::merge);
        acc = Acc::merge(acc, part);
    }
    // no awards file at all
    for dep in deposits {
        let tx = json!({"BrokerageTransactions": [{"Date": us(dep), "Action": "Stock Plan Activity", "Symbol": "XYZ", "Description": "RSU", "Quantity": "10", "Price": "", "Fees & Comm": "", "Amount": ""}]}).to_string();
        let input = SchwabInput { transactions_json: tx.clone(), awards_json: None };
        acc.states += 1;
        acc.validated += 1;
        acc.bump("no-awards-file");
        match catch_unwind(AssertUnwindSafe(|| SchwabConverter::new().convert(&input))) {
            Ok(Err(e)) if e.to_string().contains("XYZ") && e.to_string().contains(&dep.format("%Y-%m-%d").to_string()) => {}
            other => acc.violation(&ctx.findings, "C19", Violation { clause: "no-awards-file".into(), input: Input::Json(json!({"transactions": tx})), detail: format!("without an awards file the conversion must fail naming symbol and date, got {:?}", other.map(|r| r.map(|o| o.cgt_content).map_err(|e| e.to_string())).map_err(|_| "panic")), context: Value::Null }),
        }
    }
    for k in ["matched-on-deposit-date", "matched-by-look-back", "matched-at-exactly-7-days", "refused-no-entry-in-window", "no-awards-file", "two-deposits-resolved-independently"] {
        ctx.require(acc.get(k) > 0, &format!("nothing exhibited {k}"));
    }
    let _ = Rat::zero();
    ctx.bound = json!({"offsets": "-9..=+2 (all 4096 subsets)", "deposit_dates": deposits.iter().map(|d| d.to_string()).collect::<Vec<_>>(), "entry_patterns": pats.iter().map(|p| format!("{p:?}")).collect::<Vec<_>>(), "symbol_case": 2});
    ctx.alphabets.push(json!({"name": "award files", "description": "every subset of vest-entry offsets -9..+2 relative to the deposit date, each entry with its own market value; entries carrying vest fields (VestDate/VestFairMarketValue under a later parent date), the fallback FairMarketValuePrice, alternating, or both for the same date in both file orders; a cash action with empty details and another symbol's entry as noise; symbol spelled in mixed case"}));
    ctx.explanation = "States are (awards file, deposit row) pairs, enumerated completely over the alphabet; the real SchwabConverter is executed on each and the BUY line's date and price are compared with a five-line reference look-up (offset 0, else the largest offset in [-7,-1], else an error naming symbol and date; vest-date market value preferred over the fallback price; never +1, +2, -8, -9).".into();
    ctx.assumptions = vec![];
    ctx.finish(&acc, "model_checking")
}
