//! mc-core: bounded exhaustive exploration engines that need only the library crates of cgt-tool.
//! Usage: mc-core <PROPERTY> <quick|thorough>      |     mc-core <PROPERTY> --replay <file>
mod conserve;
mod conv;
mod fx;
mod ledger;
mod lex;
mod mcp;
mod cli;
mod perm;
mod preds;
mod robust;
mod roundtrip;
mod years;
mod text;

use mcx::run::{Tier, machinery_failure};

fn main() {
    let args: Vec<String> = std::env::args().collect();
    if args.len() < 3 {
        eprintln!("usage: mc-core <PROPERTY> <quick|thorough> | mc-core <PROPERTY> --replay <file>");
        std::process::exit(2);
    }
    mcx::observe::quiet_panics();
    let prop = args[1].as_str();
    if prop == "C15-child" {
        std::process::exit(robust::child(&args[2..]));
    }
    if args[2] == "--replay" {
        let file = args.get(3).cloned().unwrap_or_else(|| machinery_failure("--replay needs a file"));
        std::process::exit(ledger::replay(prop, &file));
    }
    let tier = match args[2].as_str() {
        "quick" => Tier::Quick,
        "thorough" => Tier::Thorough,
        other => machinery_failure(&format!("unknown tier {other}")),
    };
    let code = match prop {
        "C01" => ledger::c01(tier),
        "C02" => ledger::c02(tier),
        "C03" => ledger::c03(tier),
        "C04" => years::c04(tier),
        "C05" => ledger::c05(tier),
        "C06" => perm::c06(tier),
        "C07" => years::c07(tier),
        "C08" => fx::c08(tier),
        "C09" => ledger::c09(tier),
        "C10" => ledger::c10(tier),
        "C11" => ledger::c11(tier),
        "C12" => ledger::c12(tier),
        "C13" => lex::c13(tier),
        "C14" => roundtrip::c14(tier),
        "C15" => robust::c15(tier),
        "C18" => conv::c18(tier),
        "C19" => conv::c19(tier),
        "C20" => mcp::c20(tier),
        other => machinery_failure(&format!("mc-core has no engine for {other}")),
    };
    std::process::exit(code);
}
