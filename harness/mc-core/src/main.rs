//! mc-core: bounded exhaustive exploration engines that need only the library crates of cgt-tool.
//! Usage: mc-core <PROPERTY> <quick|thorough>      |     mc-core <PROPERTY> --replay <file>
mod conserve;
mod conv;
mod fx;
mod ledger;
mod lex;
mod mcp;
mod cli;
mod perm;
mod preds;
mod robust;
mod roundtrip;
mod years;
mod text;

use mcx::run::{Tier, machinery_failure};

fn main() {
    let args: Vec<String> = std::env::args().collect();
    if args.len() < 3 {
        eprintln!("usage: mc-core <PROPERTY> <quick|thorough> | mc-core <PROPERTY> --replay <file>");
        std::process::exit(2);
    }
    mcx::observe::quiet_panics();
    let prop = args[1].as_str();
    if prop == "C15-child" {
        std::process::exit(robust::child(&args[2..]));
    }
    if args[2] == "--replay" {
        let file = args.get(3).cloned().unwrap_or_else(|| machinery_failure("--replay needs a file"));
        std::process::exit(replay(prop, &file));
    }
    let tier = match args[2].as_str() {
        "quick" => Tier::Quick,
        "thorough" => Tier::Thorough,
        other => machinery_failure(&format!("unknown tier {other}")),
    };
    let code = match prop {
        "C01" => ledger::c01(tier),
        "C02" => ledger::c02(tier),
        "C03" => ledger::c03(tier),
        "C04" => years::c04(tier),
        "C05" => ledger::c05(tier),
        "C06" => perm::c06(tier),
        "C07" => years::c07(tier),
        "C08" => fx::c08(tier),
        "C09" => ledger::c09(tier),
        "C10" => ledger::c10(tier),
        "C11" => ledger::c11(tier),
        "C12" => ledger::c12(tier),
        "C13" => lex::c13(tier),
        "C14" => roundtrip::c14(tier),
        "C15" => robust::c15(tier),
        "C18" => conv::c18(tier),
        "C19" => conv::c19(tier),
        "C20" => mcp::c20(tier),
        other => machinery_failure(&format!("mc-core has no engine for {other}")),
    };
    std::process::exit(code);
}

/// Re-execute the input of a replay file twice (observations must agree) and print what the oracle sees.
fn replay(prop: &str, file: &str) -> i32 {
    let text = std::fs::read_to_string(file).unwrap_or_else(|e| machinery_failure(&format!("cannot read {file}: {e}")));
    let v: serde_json::Value = serde_json::from_str(&text).unwrap_or_else(|e| machinery_failure(&format!("bad replay file: {e}")));
    println!("property {prop}, clause {}: {}", v["clause"], v["detail"].as_str().unwrap_or(""));
    match v["input"]["kind"].as_str() {
        Some("ledger") if matches!(prop, "C01" | "C02" | "C03" | "C05" | "C09" | "C10" | "C11" | "C12") => ledger::replay(prop, file),
        Some("text") => {
            let t = v["input"]["text"].as_str().unwrap_or("");
            println!("input text: {t:?}");
            let run = || format!("reference recogniser: {:?}\ntool: {:?}\npipeline: {:?}", mcx::refparse::parse(t).map(|x| x.len()), lex::tool_parse(t).map(|x| x.len()), robust::pipeline_stage(t));
            let (a, b) = (run(), run());
            if a != b {
                machinery_failure("replay is not deterministic");
            }
            println!("{a}");
            let agree = match (mcx::refparse::parse(t), lex::tool_parse(t)) {
                (Ok(x), Ok(y)) => x == y,
                (Err(e), Err(g)) => !g.starts_with("PANIC") && lex::reported_line(&g) == Some(e.line),
                _ => false,
            };
            if prop == "C13" && agree {
                println!("replay: the tool and the reference recogniser agree on this text; property {prop} holds on this input");
                return 0;
            }
            println!("VIOLATION property={prop} replay={file}");
            1
        }
        Some("json") if prop == "C18" || prop == "C19" => {
            use cgt_converter::BrokerConverter;
            let val = &v["input"]["value"];
            let (tx, aw) = if val.get("BrokerageTransactions").is_some() { (val.to_string(), Some(conv::awards_json_pub())) } else { (val["transactions"].to_string(), val.get("awards").map(|a| a.to_string())) };
            let run = || format!("{:?}", cgt_converter::schwab::SchwabConverter::new().convert(&cgt_converter::schwab::SchwabInput { transactions_json: tx.clone(), awards_json: aw.clone() }).map(|o| (o.cgt_content.lines().filter(|l| !l.starts_with("# Converted:")).collect::<Vec<_>>().join("\n"), o.warnings, o.skipped_count)).map_err(|e| e.to_string()));
            let (a, b) = (run(), run());
            if a != b {
                machinery_failure("replay is not deterministic");
            }
            println!("export: {val}\nconversion result: {a}\nVIOLATION property={prop} replay={file}   (as recorded)");
            1
        }
        _ => {
            println!("input: {}\ncontext: {}", v["input"], v["context"]);
            println!("this violation was observed through a process-level or differential engine; re-run `./check {prop} {}` to reproduce it (the exploration is deterministic)", v["tier"].as_str().unwrap_or("quick"));
            println!("VIOLATION property={prop} replay={file}   (as recorded)");
            1
        }
    }
}
