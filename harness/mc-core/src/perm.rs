//! C06: independence of line order, file split and fill splitting.
//! For every accepted base ledger: ALL n! permutations of its lines (in-process), the two-fill splitting of every
//! trade in all permutations, and — through the real CLI — all 2^(n-1) compositions of permutations into files.
use crate::ledger::Env;
use crate::preds;
use cgt_core::{CurrencyAmount, Operation, Transaction};
use mcx::alpha::{self, Alphabet, Rules, dsl_line, dsl_text};
use mcx::observe::Outcome;
use mcx::profiles::{self, base, off};
use mcx::proc::{Scratch, run_tool};
use mcx::rat::Rat;
use mcx::run::{Acc, Ctx, Input, Tier, Violation};
use mcx::view::{self, CmpOpts, Level, RV};
use rayon::prelude::*;
use rust_decimal::Decimal;
use serde_json::{Value, json};

/// `fills`: two securities, several BUY and SELL lines allowed per (date, security).
pub fn fills_alphabet() -> Alphabet {
    let b = base();
    let mut evs = vec![];
    evs.push(alpha::buy(off(b, -40), "X", "20", "10", "1"));
    evs.push(alpha::buy(off(b, -40), "Y", "20", "5", "0"));
    for (i, o) in [0i64, 5, 10].iter().enumerate() {
        let d = off(b, *o);
        evs.push(alpha::buy(d, "X", "10", &format!("{}", 11 + i), "0"));
        evs.push(alpha::buy(d, "X", "10", &format!("{}", 20 + i), "2"));
        evs.push(alpha::sell(d, "X", "10", &format!("{}", 30 + i), "1"));
        evs.push(alpha::sell(d, "X", "6", &format!("{}", 25 + i), "0"));
        evs.push(alpha::buy(d, "Y", "5", "6", "0"));
        evs.push(alpha::sell(d, "Y", "5", "9", "0.5"));
    }
    let mut r = Rules::STRICT;
    r.one_buy = false;
    r.one_sell = false;
    Alphabet::new("fills", evs, r)
}

/// `fills-small`: the part of `fills` around one disposal day with two fills and a later day with its own purchase and
/// sale, small enough to be explored one line deeper (all permutations of up to 6 lines at the quick tier).
pub fn fills_small_alphabet() -> Alphabet {
    let b = base();
    let mut evs = vec![];
    evs.push(alpha::buy(off(b, -40), "X", "20", "10", "1"));
    evs.push(alpha::buy(off(b, -40), "Y", "20", "5", "0"));
    evs.push(alpha::sell(off(b, 0), "X", "10", "30", "1"));
    evs.push(alpha::sell(off(b, 0), "X", "6", "25", "0"));
    evs.push(alpha::sell(off(b, 0), "Y", "5", "9", "0.5"));
    // a line of another security that needs no earlier line of its own (it can stand between the two fills)
    evs.push(alpha::buy(off(b, 0), "Y", "5", "6", "0"));
    evs.push(alpha::buy(off(b, 5), "X", "10", "11", "0"));
    evs.push(alpha::buy(off(b, 5), "X", "10", "20", "2"));
    evs.push(alpha::sell(off(b, 5), "X", "10", "31", "1"));
    evs.push(alpha::sell(off(b, 5), "X", "6", "26", "0"));
    // a line of another security on the later day too (it can stand between that day's purchase fills and its sale)
    evs.push(alpha::buy(off(b, 5), "Y", "5", "7", "0"));
    let mut r = Rules::STRICT;
    r.one_buy = false;
    r.one_sell = false;
    Alphabet::new("fills-small", evs, r)
}

fn permutations(n: usize) -> Vec<Vec<usize>> {
    // Heap's algorithm, deterministic order
    let mut out = vec![];
    let mut a: Vec<usize> = (0..n).collect();
    let mut c = vec![0usize; n];
    out.push(a.clone());
    let mut i = 0;
    while i < n {
        if c[i] < i {
            if i % 2 == 0 {
                a.swap(0, i);
            } else {
                a.swap(c[i], i);
            }
            out.push(a.clone());
            c[i] += 1;
            i = 0;
        } else {
            c[i] = 0;
            i += 1;
        }
    }
    out
}

fn compare(acc: &mut Acc, ctx: &Ctx, env: &Env, base_txs: &[Transaction], ref_view: &Option<RV>, variant: &[Transaction], what: &str, profile: &str) {
    acc.validated += 1;
    acc.bump("transitions");
    let out = env.calc(variant);
    let cx = json!({"variant": what, "variant_ledger": dsl_text(variant), "profile": profile});
    let push = |acc: &mut Acc, clause: &str, detail: String| {
        acc.violation(&ctx.findings, "C06", Violation { clause: clause.into(), input: Input::Ledger(base_txs.to_vec()), detail, context: cx.clone() });
    };
    match (&out, ref_view) {
        (Outcome::Report(r), Some(rv)) => {
            let d = view::diff_reports(&view::view(r), rv, Level::L3, &CmpOpts { label_a: "variant", label_b: "canonical", ..Default::default() });
            // report each level at most once per variant
            let mut seen = std::collections::BTreeSet::new();
            for x in d {
                if seen.insert(x.clause) {
                    push(acc, x.clause, x.detail);
                }
            }
        }
        (Outcome::Err { .. }, None) => {}
        (Outcome::Report(_), None) => push(acc, "acceptance", "the canonical order is refused but this variant is accepted".into()),
        (Outcome::Err { msg, .. }, Some(_)) => push(acc, "acceptance", format!("the canonical order is accepted but this variant is refused: {msg}")),
        (Outcome::Panic(m), _) => push(acc, "panic", m.clone()),
    }
}

fn visit_perms(ctx: &Ctx, env: &Env, acc: &mut Acc, txs: &[Transaction], profile: &str) {
    acc.states += 1;
    if txs.len() < 2 {
        return;
    }
    let canon = env.calc(txs);
    acc.bump(&format!("base-{}", canon.tag()));
    let rv = match &canon {
        Outcome::Report(r) => Some(view::view(r)),
        _ => None,
    };
    acc.sample(txs.len(), || json!({"profile": profile, "base": dsl_text(txs)}));
    for p in permutations(txs.len()).into_iter().skip(1) {
        let variant: Vec<Transaction> = p.iter().map(|&i| txs[i].clone()).collect();
        compare(acc, ctx, env, txs, &rv, &variant, "permutation", profile);
    }
}

fn scale_amt(a: &CurrencyAmount, num: i64, den: i64) -> CurrencyAmount {
    CurrencyAmount::new(a.amount * Decimal::from(num) / Decimal::from(den), a.currency)
}

/// Replace every BUY/SELL by two same-day fills with the same total quantity, consideration and fees.
pub fn split_fills(txs: &[Transaction]) -> Vec<Transaction> {
    let mut out = vec![];
    for t in txs {
        match &t.operation {
            Operation::Buy { amount, price, fees } | Operation::Sell { amount, price, fees } => {
                let q1 = *amount * Decimal::new(4, 1);
                let q2 = *amount - q1;
                let p1 = CurrencyAmount::new(price.amount + Decimal::new(15, 1), price.currency);
                let p2 = CurrencyAmount::new(price.amount - Decimal::ONE, price.currency);
                // check q1*p1+q2*p2 == q*p exactly
                debug_assert_eq!(Rat::from_dec(q1) * Rat::from_dec(p1.amount) + Rat::from_dec(q2) * Rat::from_dec(p2.amount), Rat::from_dec(*amount) * Rat::from_dec(price.amount));
                let f1 = scale_amt(fees, 1, 4);
                let f2 = CurrencyAmount::new(fees.amount - f1.amount, fees.currency);
                let mk = |q: Decimal, p: CurrencyAmount, f: CurrencyAmount| {
                    let op = if matches!(t.operation, Operation::Buy { .. }) { Operation::Buy { amount: q, price: p, fees: f } } else { Operation::Sell { amount: q, price: p, fees: f } };
                    Transaction { date: t.date, ticker: t.ticker.clone(), operation: op }
                };
                out.push(mk(q1, p1, f1));
                out.push(mk(q2, p2, f2));
            }
            _ => out.push(t.clone()),
        }
    }
    out
}

fn visit_fills(ctx: &Ctx, env: &Env, acc: &mut Acc, txs: &[Transaction], profile: &str, all_perms: bool) {
    acc.states += 1;
    if txs.is_empty() {
        return;
    }
    let canon = env.calc(txs);
    let rv = match &canon {
        Outcome::Report(r) => Some(view::view(r)),
        _ => None,
    };
    let split = split_fills(txs);
    if split.len() == txs.len() {
        return;
    }
    acc.bump("fills:bases-split");
    if all_perms && split.len() <= 6 {
        for p in permutations(split.len()) {
            let variant: Vec<Transaction> = p.iter().map(|&i| split[i].clone()).collect();
            compare(acc, ctx, env, txs, &rv, &variant, "two-fill splitting, permuted", profile);
        }
    } else {
        compare(acc, ctx, env, txs, &rv, &split, "two-fill splitting", profile);
        let mut rev = split.clone();
        rev.reverse();
        compare(acc, ctx, env, txs, &rv, &rev, "two-fill splitting, reversed", profile);
        // interleave: first fills of every trade, then second fills
        let mut inter: Vec<Transaction> = split.iter().step_by(2).cloned().collect();
        inter.extend(split.iter().skip(1).step_by(2).cloned());
        compare(acc, ctx, env, txs, &rv, &inter, "two-fill splitting, first fills then second fills", profile);
    }
}

/// All compositions of the permuted lines into 1..n files, each with and without a final newline, through the CLI.
fn cli_file_splits(ctx: &Ctx, acc: &mut Acc, bases: &[Vec<Transaction>]) {
    crate::cli::need_tool();
    let jobs: Vec<(usize, Vec<usize>)> = bases.iter().enumerate().flat_map(|(bi, b)| permutations(b.len()).into_iter().map(move |p| (bi, p))).collect();
    let part = jobs
        .par_iter()
        .fold(Acc::new, |mut acc, (bi, p)| {
            let b = &bases[*bi];
            let lines: Vec<String> = p.iter().map(|&i| dsl_line(&b[i])).collect();
            let sc = Scratch::new();
            sc.all_years_config();
            sc.write("all.cgt", dsl_text(b).as_bytes());
            let reference = run_tool(&["report", "all.cgt", "--format", "json"], &sc, crate::cli::T);
            let strip = |s: &str| -> Value {
                let mut v: Value = serde_json::from_str(s).unwrap_or(Value::Null);
                if let Some(o) = v.as_object_mut() {
                    o.remove("transactions");
                }
                v
            };
            let refj = strip(&reference.out());
            let n = lines.len();
            for mask in 0..(1u32 << (n - 1)) {
                for final_newline in [true, false] {
                    // cut after line i when bit i is set
                    let mut files: Vec<String> = vec![String::new()];
                    for (i, l) in lines.iter().enumerate() {
                        let cur = files.last_mut().expect("at least one file");
                        cur.push_str(l);
                        let last_of_file = i + 1 == n || mask & (1 << i) != 0;
                        if !last_of_file || final_newline {
                            cur.push('\n');
                        }
                        if last_of_file && i + 1 < n {
                            files.push(String::new());
                        }
                    }
                    let names: Vec<String> = (0..files.len()).map(|i| format!("part{i}.cgt")).collect();
                    for (nm, c) in names.iter().zip(files.iter()) {
                        sc.write(nm, c.as_bytes());
                    }
                    let mut args = vec!["report"];
                    args.extend(names.iter().map(|s| s.as_str()));
                    args.extend(["--format", "json"]);
                    let o = run_tool(&args, &sc, crate::cli::T);
                    acc.states += 1;
                    acc.validated += 1;
                    acc.bump("cli:file-compositions");
                    if files.len() > 1 && !final_newline {
                        acc.bump("cli:multi-file-without-final-newline");
                    }
                    let same = o.code == reference.code && (if reference.ok() { strip(&o.out()) == refj } else { true });
                    if !same {
                        acc.violation(
                            &ctx.findings,
                            "C06",
                            Violation {
                                clause: "file-split".into(),
                                input: Input::Ledger(b.clone()),
                                detail: format!("report for files {files:?} differs from the single canonical file (exit {:?} vs {:?}); stderr: {}", o.code, reference.code, o.err().chars().take(200).collect::<String>()),
                                context: json!({"files": files, "final_newline": final_newline}),
                            },
                        );
                    }
                }
            }
            acc
        })
        .reduce(Acc::new, Acc::merge);
    let merged = Acc::merge(std::mem::take(acc), part);
    *acc = merged;
}

pub fn c06(tier: Tier) -> i32 {
    let mut ctx = Ctx::new("C06", tier, preds::all());
    let env = Env::new();
    let mut acc = Acc::new();
    let (n_fills, n_m, n_two, n_ev, n_fs) = match tier {
        Tier::Quick => (5, 4, 4, 4, 3),
        Tier::Thorough => (6, 5, 5, 5, 4),
    };
    let run = |ctx: &mut Ctx, acc: &mut Acc, a: &Alphabet, n: usize, fills: Option<bool>| {
        let t0 = std::time::Instant::now();
        let ctxr: &Ctx = ctx;
        let part = a.explore(
            n,
            Acc::new,
            |acc, idx| {
                let l = a.ledger(idx);
                match fills {
                    None => visit_perms(ctxr, &env, acc, &l, &a.name),
                    Some(all) => visit_fills(ctxr, &env, acc, &l, &a.name, all),
                }
            },
            Acc::merge,
        );
        eprintln!("  [C06] {} N<={} ({}): {} bases, {} variants in {:.1}s", a.name, n, if fills.is_some() { "fill splitting" } else { "permutations" }, part.states, part.validated, t0.elapsed().as_secs_f64());
        let mut d = a.describe();
        d["max_events"] = json!(n);
        d["mode"] = json!(if fills.is_some() { "fill splitting" } else { "all permutations" });
        ctx.alphabets.push(d);
        let merged = Acc::merge(std::mem::take(acc), part);
        *acc = merged;
    };
    run(&mut ctx, &mut acc, &fills_alphabet(), n_fills, None);
    run(&mut ctx, &mut acc, &fills_small_alphabet(), n_fills + 1, None);
    run(&mut ctx, &mut acc, &profiles::match1(&["2"], true), n_m, None);
    run(&mut ctx, &mut acc, &profiles::two_sec(), n_two, None);
    run(&mut ctx, &mut acc, &profiles::events(&["2"]), n_ev, None);
    run(&mut ctx, &mut acc, &profiles::events_same_day(), n_ev + 2, None);
    run(&mut ctx, &mut acc, &profiles::fx_years(), n_ev + 1, None);
    run(&mut ctx, &mut acc, &profiles::match1(&["2"], true), n_fs, Some(true));
    run(&mut ctx, &mut acc, &profiles::two_sec(), n_fs + 1, Some(false));
    // CLI file compositions on a fixed set of bases
    let b = base();
    let bases = vec![
        vec![alpha::buy(off(b, -40), "X", "20", "10", "1"), alpha::sell(off(b, 0), "X", "10", "30", "1"), alpha::buy(off(b, 5), "X", "10", "11", "0"), alpha::sell(off(b, 5), "Y", "5", "9", "0.5")],
        vec![alpha::buy(off(b, -40), "X", "20", "10", "1"), alpha::buy(off(b, -40), "Y", "20", "5", "0"), alpha::sell(off(b, 0), "Y", "5", "9", "0.5"), alpha::sell(off(b, 0), "X", "6", "25", "0")],
        vec![alpha::sell(off(b, 0), "X", "6", "25", "0"), alpha::buy(off(b, 0), "X", "10", "11", "0"), alpha::split(off(b, 3), "X", "2")],
    ];
    // a trade recorded as two identical same-day fills (identical lines are still two lines, in one file or in two)
    let mut bases = bases;
    bases.insert(2, vec![alpha::buy(off(b, -40), "X", "50", "10", "5"), alpha::buy(off(b, -40), "X", "50", "10", "5"), alpha::sell(off(b, 0), "X", "40", "15", "8")]);
    let bases = if tier == Tier::Quick { bases[..3].to_vec() } else { bases };
    cli_file_splits(&ctx, &mut acc, &bases);
    ctx.alphabets.push(json!({"name": "cli-file-compositions", "bases": bases.iter().map(|b| dsl_text(b)).collect::<Vec<_>>(), "description": "every permutation x every composition into 1..n files x final newline present/absent, through `cgt-tool report a.cgt b.cgt ...`"}));
    ctx.require(acc.get("base-accepted") > 0 && acc.get("fills:bases-split") > 0 && acc.get("cli:multi-file-without-final-newline") > 0, "permutation/fill/file variants must all be exercised");
    ctx.bound = json!({"fills_max_lines": n_fills, "match1_reduced_max_lines": n_m, "two_sec_max_lines": n_two, "events_max_lines": n_ev, "fill_split_bases_max_lines": n_fs});
    ctx.explanation = "For every base ledger of the bounded graphs the real calculate() is executed on the canonical order and on ALL n! permutations of its lines; every BUY/SELL is also replaced by two same-day fills (0.4q @ p+1.5, 0.6q @ p-1, fees split 1:3 — same total quantity, consideration and fees) and run in all permutations (<= 6 lines) or in three characteristic orders. Reports are compared with the canonical order at three levels (L1 figures per disposal/year/holding, L2 legs merged per rule and acquisition date, L3 literal leg lists). Through the real CLI every permutation of fixed bases is cut into every composition of 1..n files, with and without final newline. transitions = variants executed.".into();
    ctx.assumptions = vec!["decimal equality = |difference| <= 1e-9".into()];
    ctx.finish(&acc, "model_checking")
}
