//! C02: share conservation computed from the input lines and the report only (no reference model).
use cgt_core::{Operation, TaxReport, Transaction};
use chrono::NaiveDate;
use mcx::observe::{Diff, rule_of};
use mcx::rat::Rat;
use mcx::refmodel::Rule;
use std::collections::BTreeMap;

#[derive(Clone)]
struct Day {
    b: Rat,
    s: Rat,
    ratio: Rat,
}

pub fn check(txs: &[Transaction], rep: &TaxReport) -> Vec<Diff> {
    let mut out = vec![];
    let mut per: BTreeMap<String, BTreeMap<NaiveDate, Day>> = BTreeMap::new();
    for t in txs {
        let tk = t.ticker.to_uppercase();
        let d = per.entry(tk).or_default().entry(t.date).or_insert(Day { b: Rat::zero(), s: Rat::zero(), ratio: Rat::one() });
        match &t.operation {
            Operation::Buy { amount, .. } => d.b += Rat::from_dec(*amount),
            Operation::Sell { amount, .. } => d.s += Rat::from_dec(*amount),
            Operation::Split { ratio } => d.ratio *= &Rat::from_dec(*ratio),
            Operation::Unsplit { ratio } => d.ratio = &d.ratio / &Rat::from_dec(*ratio),
            _ => {}
        }
    }
    // u(d,e): product of ratios of days t with d < t <= e ; e=None means to the end (a day's SPLIT/UNSPLIT comes
    // before that day's trades: docs/spec.md, fix 9568b9a)
    let u = |days: &BTreeMap<NaiveDate, Day>, d: NaiveDate, e: Option<NaiveDate>| -> Rat {
        let mut r = Rat::one();
        for (t, day) in days.range(d..) {
            if *t == d {
                continue;
            }
            if let Some(e) = e {
                if *t > e {
                    break;
                }
            }
            r *= &day.ratio;
        }
        r
    };
    // (i) legs add up to the day's sales ; (ii) claims per acquisition day
    let mut sold_reported: BTreeMap<(String, NaiveDate), Rat> = BTreeMap::new();
    let mut claimed: BTreeMap<(String, NaiveDate), Rat> = BTreeMap::new();
    for y in &rep.tax_years {
        for d in &y.disposals {
            let legsum: Rat = d.matches.iter().map(|m| Rat::from_dec(m.quantity)).sum();
            *sold_reported.entry((d.ticker.clone(), d.date)).or_default() += &legsum;
            if !legsum.close_dec(d.quantity) {
                out.push(Diff { clause: "legs-sum-to-disposal", detail: format!("disposal {} {}: legs sum {} but disposal quantity {}", d.date, d.ticker, legsum, d.quantity) });
            }
            let Some(days) = per.get(&d.ticker) else { continue };
            for m in &d.matches {
                let q = Rat::from_dec(m.quantity);
                if q.is_neg() {
                    out.push(Diff { clause: "negative-leg", detail: format!("disposal {} {}: leg with negative quantity {}", d.date, d.ticker, q) });
                }
                match rule_of(&m.rule) {
                    Rule::SameDay => *claimed.entry((d.ticker.clone(), d.date)).or_default() += &q,
                    Rule::Bnb => {
                        if let Some(e) = m.acquisition_date {
                            if e <= d.date {
                                out.push(Diff { clause: "bnb-date", detail: format!("disposal {} {}: 30-day leg with acquisition date {} not after the disposal", d.date, d.ticker, e) });
                            } else {
                                *claimed.entry((d.ticker.clone(), e)).or_default() += &q * &u(days, d.date, Some(e));
                            }
                        } else {
                            out.push(Diff { clause: "bnb-date", detail: format!("disposal {} {}: 30-day leg without acquisition date", d.date, d.ticker) });
                        }
                    }
                    Rule::S104 => {}
                }
            }
        }
    }
    for (tk, days) in &per {
        for (date, day) in days {
            let rep_q = sold_reported.remove(&(tk.clone(), *date)).unwrap_or_default();
            if !rep_q.close(&day.s) {
                out.push(Diff { clause: "sold-equals-legs", detail: format!("{tk} {date}: SELL lines total {} but reported legs total {}", day.s, rep_q) });
            }
            let c = claimed.remove(&(tk.clone(), *date)).unwrap_or_default();
            if c > &day.b + &Rat::frac(1, 1_000_000_000) {
                out.push(Diff { clause: "acquisition-overclaimed", detail: format!("{tk} {date}: {} shares matched against that day's acquisitions but only {} were acquired", c, day.b) });
            }
        }
    }
    for ((tk, date), q) in sold_reported {
        if !q.negligible() {
            out.push(Diff { clause: "sold-equals-legs", detail: format!("{tk} {date}: legs total {} reported on a day without SELL lines", q) });
        }
    }
    for ((tk, date), q) in claimed {
        if !q.negligible() {
            out.push(Diff { clause: "acquisition-overclaimed", detail: format!("{tk} {date}: {} shares matched against a day without acquisitions", q) });
        }
    }
    // (iii) closing holdings
    let mut hold: BTreeMap<String, Rat> = BTreeMap::new();
    for h in &rep.holdings {
        *hold.entry(h.ticker.clone()).or_default() += Rat::from_dec(h.quantity);
    }
    for (tk, days) in &per {
        let mut exp = Rat::zero();
        for (date, day) in days {
            let f = u(days, *date, None);
            exp += (&day.b - &day.s) * f;
        }
        let got = hold.remove(tk).unwrap_or_default();
        if !got.close(&exp) {
            out.push(Diff { clause: "closing-holding", detail: format!("{tk}: closing holding {} but acquisitions minus disposals (rescaled) = {}", got, exp) });
        } else if got != exp && exact_scope(days, rep, tk) {
            // "equals": where every share count along the way is a finite decimal and no 30-day leg reaches across
            // a split, decimal arithmetic has nothing to round, so the closing holding must be exact.
            out.push(Diff { clause: "closing-holding-exact", detail: format!("{tk}: closing holding {} but acquisitions minus disposals (rescaled) = {} exactly (every intermediate share count is a finite decimal)", got, exp) });
        }
    }
    for (tk, q) in hold {
        if !q.negligible() {
            out.push(Diff { clause: "closing-holding", detail: format!("{tk}: holding {} for a security with no transactions", q) });
        }
    }
    out
}

/// Scope of the exactness clause: the running holding after every day is a finite decimal, and no 30-day leg of this
/// security has a SPLIT/UNSPLIT between the disposal and its acquisition.
fn exact_scope(days: &BTreeMap<NaiveDate, Day>, rep: &TaxReport, tk: &str) -> bool {
    let mut run = Rat::zero();
    for day in days.values() {
        run = &run * &day.ratio;
        if !run.is_finite_decimal() {
            return false;
        }
        run = &run + &(&day.b - &day.s);
        if !run.is_finite_decimal() {
            return false;
        }
    }
    for y in &rep.tax_years {
        for d in y.disposals.iter().filter(|d| d.ticker == tk) {
            for m in &d.matches {
                if let (Rule::Bnb, Some(e)) = (rule_of(&m.rule), m.acquisition_date) {
                    if days.range(d.date..=e).any(|(t, day)| *t != d.date && day.ratio != Rat::one()) {
                        return false;
                    }
                }
            }
        }
    }
    true
}
