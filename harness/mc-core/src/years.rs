//! C04 (report arithmetic from legs to year totals, exemption configuration) and C07 (tax-year placement,
//! year slices) over the `years` ledger graph and the full calendar.
use crate::ledger::Env;
use crate::preds;
use cgt_core::{Config, Operation, TaxReport, Transaction};
use chrono::{Duration, NaiveDate};
use mcx::alpha::{self, Alphabet, Rules, dsl_text};
use mcx::fxref;
use mcx::observe::{ErrKind, Outcome, order_invariants, run_calc};
use mcx::rat::Rat;
use mcx::refmodel::{ROp, tax_year_of, to_rtx};
use mcx::run::{Acc, Ctx, Input, Tier, Violation, machinery_failure};
use mcx::view::{self, CmpOpts, Level};
use rayon::prelude::*;
use rust_decimal::Decimal;
use serde_json::{Value, json};
use std::collections::BTreeMap;

/// `years`: two securities (A in GBP, B in USD/EUR), dates straddling 5/6 April of three consecutive years,
/// two SELL fills per day at different prices and fees, zero-result sales, dividends with and without tax.
pub fn years_alphabet() -> Alphabet {
    let mut evs = vec![];
    let seed = alpha::date(2021, 1, 10);
    evs.push(alpha::buy(seed, "A", "100", "10", "0"));
    evs.push(alpha::buy(seed, "B", "100", "10 USD", "2 USD"));
    let days = [alpha::date(2022, 4, 5), alpha::date(2022, 4, 6), alpha::date(2023, 4, 5), alpha::date(2023, 4, 6), alpha::date(2024, 4, 5), alpha::date(2024, 4, 6)];
    for (i, d) in days.iter().enumerate() {
        // A: gain fill, loss fill, exact-zero fill (sold at the pool's unit cost, no fees)
        evs.push(alpha::sell(*d, "A", "3", &format!("{}", 12 + i), "1.25"));
        evs.push(alpha::sell(*d, "A", "2", "7.5", "0.5"));
        evs.push(alpha::sell(*d, "A", "1", "10", "0"));
        evs.push(alpha::sell(*d, "B", "3", &format!("{} USD", 15 + i), "1 EUR"));
        evs.push(alpha::sell(*d, "B", "2", "9 EUR", "0.75 USD"));
        // value-range corners: sale costs above the consideration (net proceeds negative), and a sale at price 0
        if i % 3 == 0 {
            evs.push(alpha::sell(*d, "A", "1", "0.5", "2"));
        } else if i % 3 == 1 {
            evs.push(alpha::sell(*d, "A", "4", "0", "0.4"));
        } else {
            // a second fill at exactly the price of the first one, with its own fee
            evs.push(alpha::sell(*d, "A", "2", &format!("{}", 12 + i), "0.75"));
        }
        if i % 2 == 0 {
            evs.push(alpha::dividend(*d, "A", "30", "3"));
            evs.push(alpha::dividend(*d, "B", "20 USD", "0"));
        } else {
            evs.push(alpha::dividend(*d, "A", "11", "0"));
            evs.push(alpha::dividend(*d, "B", "8 EUR", "1.2 EUR"));
        }
    }
    evs.push(alpha::buy(alpha::date(2023, 4, 20), "A", "5", "11", "1"));
    let mut rules = Rules::STRICT;
    rules.one_sell = false;
    Alphabet::new("years", evs, rules)
}

fn cfg_distinct() -> Config {
    let mut cfg = Config::default();
    for y in 1900..=2100u16 {
        cfg.exemptions.insert(y, Decimal::from(1000 + (y as i64 % 50) * 100));
    }
    cfg
}

struct Lines {
    /// (date,ticker) -> (qty, gross, fees)
    sells: BTreeMap<(NaiveDate, String), (Rat, Rat, Rat)>,
    /// tax year -> (dividend income, tax)
    divs: BTreeMap<i32, (Rat, Rat)>,
}
fn lines_of(env: &Env, txs: &[Transaction]) -> Lines {
    let fx = fxref::fx_fn(&env.rates);
    let rtx = to_rtx(txs, &fx).unwrap_or_else(|m| machinery_failure(&format!("years alphabet uses a missing rate {m:?}")));
    let mut l = Lines { sells: BTreeMap::new(), divs: BTreeMap::new() };
    for t in &rtx {
        match &t.op {
            ROp::Sell { q, p, f } => {
                let e = l.sells.entry((t.date, t.ticker.clone())).or_default();
                e.0 += q;
                e.1 += q * p;
                e.2 += f;
            }
            ROp::Div { total, tax } => {
                let e = l.divs.entry(tax_year_of(t.date)).or_default();
                e.0 += total;
                e.1 += tax;
            }
            _ => {}
        }
    }
    l
}

fn v(clause: &str, txs: &[Transaction], detail: String, context: Value) -> Violation {
    Violation { clause: clause.to_string(), input: Input::Ledger(txs.to_vec()), detail, context }
}

/// All C04 identities on one report.
pub fn arithmetic(env: &Env, txs: &[Transaction], rep: &TaxReport, cfg: &Config) -> Vec<(String, String)> {
    let mut out: Vec<(String, String)> = vec![];
    let l = lines_of(env, txs);
    let rv = view::view(rep);
    let mut seen: BTreeMap<(NaiveDate, String), usize> = BTreeMap::new();
    for y in &rv.years {
        let mut gain = Rat::zero();
        let mut loss = Rat::zero();
        let mut gross_sum = Rat::zero();
        for d in &y.disposals {
            *seen.entry((d.date, d.ticker.clone())).or_default() += 1;
            if tax_year_of(d.date) != y.year {
                out.push(("year-placement".into(), format!("disposal {} {} listed under {}", d.date, d.ticker, y.year)));
            }
            match l.sells.get(&(d.date, d.ticker.clone())) {
                None => out.push(("disposal-from-lines".into(), format!("disposal {} {} has no SELL line", d.date, d.ticker))),
                Some((q, g, f)) => {
                    if !d.qty.close(q) {
                        out.push(("disposal-quantity".into(), format!("disposal {} {}: quantity {} but SELL lines total {}", d.date, d.ticker, d.qty, q)));
                    }
                    if !d.gross.close(g) {
                        out.push(("gross-proceeds".into(), format!("disposal {} {}: gross proceeds {} but Σ quantity×price = {}", d.date, d.ticker, d.gross, g)));
                    }
                    if !d.net.close(&(g - f)) {
                        out.push(("net-proceeds".into(), format!("disposal {} {}: net proceeds {} but gross − fees = {}", d.date, d.ticker, d.net, g - f)));
                    }
                }
            }
            let legq: Rat = d.legs.iter().map(|x| x.qty.clone()).sum();
            if !legq.close(&d.qty) {
                out.push(("legs-quantity".into(), format!("disposal {} {}: legs total {} but quantity {}", d.date, d.ticker, legq, d.qty)));
            }
            let net_result = d.gain();
            if !net_result.close(&(&d.net - &d.cost())) {
                out.push(("legs-gain".into(), format!("disposal {} {}: legs' gains sum to {} but net proceeds − Σ cost = {}", d.date, d.ticker, net_result, &d.net - &d.cost())));
            }
            if net_result.is_pos() {
                gain += &net_result;
            } else {
                loss += net_result.abs();
            }
            gross_sum += &d.gross;
        }
        if !y.gain.close(&gain) {
            out.push(("year-total-gain".into(), format!("tax year {}: total gain {} but positive disposal results sum to {}", y.year, y.gain, gain)));
        }
        if !y.loss.close(&loss) {
            out.push(("year-total-loss".into(), format!("tax year {}: total loss {} but negative disposal results sum to {}", y.year, y.loss, loss)));
        }
        if !y.net.close(&(&gain - &loss)) {
            out.push(("year-net-gain".into(), format!("tax year {}: net gain {} expected {}", y.year, y.net, &gain - &loss)));
        }
        if y.count != y.disposals.len() {
            out.push(("disposal-count".into(), format!("tax year {}: disposal count {} but {} disposals listed", y.year, y.count, y.disposals.len())));
        }
        if !y.gross_proceeds.close(&gross_sum) {
            out.push(("year-gross-proceeds".into(), format!("tax year {}: gross proceeds {} expected {}", y.year, y.gross_proceeds, gross_sum)));
        }
        let z = (Rat::zero(), Rat::zero());
        let dv = l.divs.get(&y.year).unwrap_or(&z);
        if !y.div.close(&dv.0) || !y.divtax.close(&dv.1) {
            out.push(("dividends".into(), format!("tax year {}: dividend income/tax {}/{} but that year's DIVIDEND lines sum to {}/{}", y.year, y.div, y.divtax, dv.0, dv.1)));
        }
        match cfg.exemptions.get(&(y.year as u16)) {
            None => out.push(("exemption".into(), format!("tax year {} reported although no exemption is configured (exempt amount shown: {})", y.year, y.exempt))),
            Some(e) => {
                let e = Rat::from_dec(*e);
                if !y.exempt.close(&e) {
                    out.push(("exemption".into(), format!("tax year {}: exemption {} but configured {}", y.year, y.exempt, e)));
                }
                let taxable = (&y.net - &e).max(Rat::zero());
                if !y.taxable.close(&taxable) {
                    out.push(("taxable-gain".into(), format!("tax year {}: taxable gain {} expected {}", y.year, y.taxable, taxable)));
                }
            }
        }
    }
    for (k, n) in &seen {
        if *n > 1 {
            out.push(("disposal-duplicated".into(), format!("disposal {} {} listed {} times", k.0, k.1, n)));
        }
    }
    for k in l.sells.keys() {
        if !seen.contains_key(k) {
            out.push(("disposal-missing".into(), format!("SELL lines on {} {} but no disposal reported", k.0, k.1)));
        }
    }
    for d in order_invariants(rep) {
        out.push((d.clause.to_string(), d.detail));
    }
    out
}

fn visit_c04(ctx: &Ctx, env: &Env, cfg: &Config, acc: &mut Acc, txs: &[Transaction]) {
    // the identities hold in every line order: also run the order in which the two fills of one security on one day
    // are separated by the other security's rows
    for il in mcx::profiles::other_orders(txs) {
        acc.bump("interleaved-line-order-also-run");
        visit_c04_one(ctx, env, cfg, acc, &il);
    }
    visit_c04_one(ctx, env, cfg, acc, txs);
}

fn visit_c04_one(ctx: &Ctx, env: &Env, cfg: &Config, acc: &mut Acc, txs: &[Transaction]) {
    acc.states += 1;
    let out = run_calc(txs, None, Some(&env.fx), cfg);
    acc.bump(out.tag());
    acc.sample(txs.len(), || json!({"profile": "years", "ledger": dsl_text(txs)}));
    match &out {
        Outcome::Report(rep) => {
            acc.validated += 1;
            let rv = view::view(rep);
            if rv.years.len() >= 2 {
                acc.bump("shape:several-tax-years");
            }
            for y in &rv.years {
                if y.gain.is_pos() && y.loss.is_pos() {
                    acc.bump("shape:year-with-gains-and-losses");
                }
                if y.div.is_pos() {
                    acc.bump("shape:year-with-dividends");
                }
                for d in &y.disposals {
                    if d.gain().is_zero() {
                        acc.bump("shape:zero-result-disposal");
                    }
                }
            }
            let l = lines_of(env, txs);
            if txs.iter().filter(|t| matches!(t.operation, Operation::Sell { .. })).count() > l.sells.len() {
                acc.bump("shape:several-fills-on-one-day");
            }
            for (c, d) in arithmetic(env, txs, rep, cfg) {
                acc.violation(&ctx.findings, "C04", v(&c, txs, d, json!({"config": "all years, distinct amounts"})));
            }
            // "in every report": the one-year report of every tax year that has DIVIDEND lines (whether or not the
            // year has disposals) shows that year's dividend income and tax
            for (ty, (inc, tax)) in &l.divs {
                acc.bump("year-reports-with-dividends");
                match run_calc(txs, Some(*ty), Some(&env.fx), cfg) {
                    Outcome::Report(r1) => {
                        let v1 = view::view(&r1);
                        match v1.years.iter().find(|y| y.year == *ty) {
                            Some(y1) => {
                                if !y1.div.close(inc) || !y1.divtax.close(tax) {
                                    acc.violation(&ctx.findings, "C04", v("dividends", txs, format!("the report for tax year {ty} shows dividend income/tax {}/{} but that year's DIVIDEND lines sum to {}/{}", y1.div, y1.divtax, inc, tax), json!({"year_report": ty})));
                                }
                                if rv.years.iter().all(|y| y.year != *ty) {
                                    acc.bump("shape:dividend-year-without-disposals");
                                }
                            }
                            None => acc.violation(&ctx.findings, "C04", v("dividends", txs, format!("the report for tax year {ty} has no entry for that year"), json!({"year_report": ty}))),
                        }
                    }
                    Outcome::Err { msg, .. } => acc.violation(&ctx.findings, "C04", v("dividends", txs, format!("the report for tax year {ty} fails although the all-years report succeeds: {msg}"), json!({"year_report": ty}))),
                    Outcome::Panic(m) => acc.violation(&ctx.findings, "C04", v("panic", txs, m, json!({"year_report": ty}))),
                }
            }
            // unconfigured year: removing the exemption of any reported year must turn the run into an error
            for y in &rv.years {
                let mut c2 = cfg.clone();
                c2.exemptions.remove(&(y.year as u16));
                acc.bump("config:year-removed");
                match run_calc(txs, None, Some(&env.fx), &c2) {
                    Outcome::Err { kind: ErrKind::UnsupportedExemption, msg } => {
                        if !msg.contains(&y.year.to_string()) {
                            acc.violation(&ctx.findings, "C04", v("unconfigured-year-error", txs, format!("error does not name year {}: {msg}", y.year), json!({"removed_year": y.year})));
                        }
                    }
                    Outcome::Err { msg, .. } => acc.violation(&ctx.findings, "C04", v("unconfigured-year-error", txs, format!("unexpected error kind for a missing exemption: {msg}"), json!({"removed_year": y.year}))),
                    Outcome::Report(r2) => {
                        let shown = r2.tax_years.iter().find(|t| t.period.start_year() as i32 == y.year).map(|t| t.exempt_amount.to_string());
                        acc.violation(&ctx.findings, "C04", v("unconfigured-year-accepted", txs, format!("tax year {} has no configured exemption yet a report is produced (exemption shown: {shown:?})", y.year), json!({"removed_year": y.year})));
                    }
                    Outcome::Panic(m) => acc.violation(&ctx.findings, "C04", v("panic", txs, m, json!({"removed_year": y.year}))),
                }
            }
            // a year that is NOT reported may be unconfigured without harm
            let reported: Vec<i32> = rv.years.iter().map(|y| y.year).collect();
            for y in [2019i32, 2021, 2022, 2023, 2024] {
                if reported.contains(&y) {
                    continue;
                }
                let mut c2 = cfg.clone();
                c2.exemptions.remove(&(y as u16));
                if let Outcome::Err { msg, .. } = run_calc(txs, None, Some(&env.fx), &c2) {
                    acc.violation(&ctx.findings, "C04", v("irrelevant-year-needed", txs, format!("removing the exemption of {y}, a year without disposals, makes the all-years run fail: {msg}"), json!({"removed_year": y})));
                }
            }
        }
        Outcome::Err { .. } => {}
        Outcome::Panic(m) => acc.violation(&ctx.findings, "C04", v("panic", txs, m.clone(), Value::Null)),
    }
}

pub fn c04(tier: Tier) -> i32 {
    let mut ctx = Ctx::new("C04", tier, preds::all());
    let env = Env::new();
    let cfg = cfg_distinct();
    let a = years_alphabet();
    let n = match tier {
        Tier::Quick => 5,
        Tier::Thorough => 6,
    };
    let t0 = std::time::Instant::now();
    let ctxr: &Ctx = &ctx;
    let mut acc = a.explore(n, Acc::new, |acc, idx| visit_c04(ctxr, &env, &cfg, acc, &a.ledger(idx)), Acc::merge);
    eprintln!("  [C04] profile years N<={n}: {} states in {:.1}s", acc.states, t0.elapsed().as_secs_f64());
    let mut d = a.describe();
    d["max_events"] = json!(n);
    ctx.alphabets.push(d);
    // the same identities on ledgers with SPLIT/UNSPLIT inside 30-day windows, sale fees and several legs per disposal
    {
        let a2 = mcx::profiles::match1(&["2"], true);
        let n2 = if tier == Tier::Quick { 5 } else { 6 };
        let t1 = std::time::Instant::now();
        let part = {
            let ctxr2: &Ctx = &ctx;
            a2.explore(n2, Acc::new, |acc, idx| visit_c04(ctxr2, &env, &cfg, acc, &a2.ledger(idx)), Acc::merge)
        };
        eprintln!("  [C04] profile match1-reduced N<={n2}: {} states in {:.1}s", part.states, t1.elapsed().as_secs_f64());
        let mut d2 = a2.describe();
        d2["max_events"] = json!(n2);
        ctx.alphabets.push(d2);
        acc = Acc::merge(acc, part);
    }
    // the real configuration loader through the CLI (process-level configuration menu)
    crate::cli::c04_config_menu(&mut ctx, &mut acc);
    for k in ["shape:several-tax-years", "shape:year-with-gains-and-losses", "shape:year-with-dividends", "shape:zero-result-disposal", "shape:several-fills-on-one-day", "shape:dividend-year-without-disposals", "config:year-removed"] {
        ctx.require(acc.get(k) > 0, &format!("no state exhibited {k}"));
    }
    ctx.bound = json!({"years_max_events": n});
    ctx.explanation = "Every ledger of the `years` graph (two securities, GBP and USD/EUR amounts, two SELL fills per day with different prices and fees, exact-zero results, DIVIDEND lines, dates on both sides of three 5/6 April boundaries) is executed on the real calculate() with a configuration giving every year a distinct exemption; all report identities are recomputed in exact rationals from the input lines (FX from an independent reader of the bundled XML) and the report's own legs. For every reported year the run is repeated with that year's exemption removed (must fail naming the year); for unreported years removal must be harmless. The real Config::load_with_overrides is exercised through the cgt-tool process over a menu of ./config.toml and ~/.config/cgt-tool/config.toml files.".into();
    ctx.assumptions = vec!["decimal equality = |difference| <= 1e-9".into(), "precedence between the two override files is not specified by the property and is not tested".into()];
    ctx.finish(&acc, "model_checking")
}

// ---------------------------------------------------------------------------------------------------- C07

fn visit_c07(ctx: &Ctx, env: &Env, acc: &mut Acc, txs: &[Transaction]) {
    acc.states += 1;
    let all = run_calc(txs, None, Some(&env.fx), &env.cfg);
    acc.bump(all.tag());
    acc.sample(txs.len(), || json!({"profile": "years", "ledger": dsl_text(txs)}));
    let Outcome::Report(all) = all else { return };
    let va = view::view(&all);
    // placement + order
    for y in &va.years {
        for d in &y.disposals {
            if tax_year_of(d.date) != y.year {
                acc.violation(&ctx.findings, "C07", v("year-placement", txs, format!("disposal {} {} listed under {}", d.date, d.ticker, y.year), Value::Null));
            }
        }
    }
    for d in order_invariants(&all) {
        acc.violation(&ctx.findings, "C07", v(d.clause, txs, d.detail, Value::Null));
    }
    // "years outside the exemption table": with a table that knows only ONE of the years that have disposals, the
    // report of that year is still the all-years slice (the other years' missing amounts are no obstacle to it)
    if va.years.len() >= 2 {
        for keep in va.years.iter().map(|y| y.year) {
            let mut partial = Config::default();
            if let Some(a) = env.cfg.exemptions.get(&(keep as u16)) {
                partial.exemptions.insert(keep as u16, *a);
            }
            acc.validated += 1;
            acc.bump("filter:only-this-year-configured");
            let cx = json!({"year_filter": keep, "configured_years": [keep]});
            match run_calc(txs, Some(keep), Some(&env.fx), &partial) {
                Outcome::Report(fr) => {
                    let vf = view::view(&fr);
                    if let (Some(ay), Some(fy)) = (va.years.iter().find(|t| t.year == keep), vf.years.first()) {
                        let one_a = view::RV { years: vec![ay.clone()], holdings: va.holdings.clone() };
                        let one_f = view::RV { years: vec![fy.clone()], holdings: vf.holdings.clone() };
                        for d in view::diff_reports(&one_f, &one_a, Level::L3, &CmpOpts { label_a: "year-report", label_b: "all-years-slice", ..Default::default() }) {
                            acc.violation(&ctx.findings, "C07", v("slice-differs", txs, d.detail, cx.clone()));
                        }
                    } else {
                        acc.violation(&ctx.findings, "C07", v("slice-shape", txs, format!("year filter {keep}: no summary for that year"), cx));
                    }
                }
                Outcome::Err { msg, .. } => acc.violation(&ctx.findings, "C07", v("slice-refused", txs, format!("the report of {keep}, the only configured year, fails because of another year: {msg}"), cx)),
                Outcome::Panic(m) => acc.violation(&ctx.findings, "C07", v("panic", txs, m, cx)),
            }
        }
    }
    let l = lines_of(env, txs);
    let mut filters: Vec<i32> = va.years.iter().map(|y| y.year).collect();
    let (lo, hi) = (filters.iter().min().copied().unwrap_or(2022), filters.iter().max().copied().unwrap_or(2022));
    for y in lo - 1..=hi + 1 {
        if !filters.contains(&y) {
            filters.push(y);
        }
    }
    filters.extend([1899, 1900, 2100, 2101, -1, 0, 100000]);
    for y in filters {
        acc.validated += 1;
        acc.bump("transitions");
        let f = run_calc(txs, Some(y), Some(&env.fx), &env.cfg);
        let cx = json!({"year_filter": y});
        let in_range = (1900..=2100).contains(&y);
        match f {
            Outcome::Panic(m) => acc.violation(&ctx.findings, "C07", v("panic", txs, m, cx)),
            Outcome::Err { msg, .. } => {
                if in_range {
                    acc.violation(&ctx.findings, "C07", v("slice-refused", txs, format!("all-years report exists but --year {y} fails: {msg}"), cx));
                } else {
                    acc.bump("filter:out-of-range-refused");
                }
            }
            Outcome::Report(fr) => {
                if !in_range {
                    acc.violation(&ctx.findings, "C07", v("out-of-range-year-accepted", txs, format!("year filter {y} is outside 1900..2100 yet a report is produced"), cx));
                    continue;
                }
                let vf = view::view(&fr);
                if vf.years.len() != 1 || vf.years[0].year != y {
                    acc.violation(&ctx.findings, "C07", v("slice-shape", txs, format!("year filter {y}: report lists years {:?}", vf.years.iter().map(|t| t.year).collect::<Vec<_>>()), cx));
                    continue;
                }
                let fy = &vf.years[0];
                let mut diffs = vec![];
                match va.years.iter().find(|t| t.year == y) {
                    Some(ay) => {
                        acc.bump("filter:year-with-disposals");
                        let one_a = view::RV { years: vec![ay.clone()], holdings: va.holdings.clone() };
                        let one_f = view::RV { years: vec![fy.clone()], holdings: vf.holdings.clone() };
                        for d in view::diff_reports(&one_f, &one_a, Level::L3, &CmpOpts { label_a: "year-report", label_b: "all-years-slice", ..Default::default() }) {
                            diffs.push(d.detail);
                        }
                    }
                    None => {
                        acc.bump("filter:year-without-disposals");
                        if !fy.disposals.is_empty() || !fy.gain.is_zero() || !fy.loss.is_zero() || !fy.net.is_zero() || fy.count != 0 {
                            diffs.push(format!("year {y} has no disposals in the all-years report but the year report shows {} disposals, gain {}, loss {}", fy.disposals.len(), fy.gain, fy.loss));
                        }
                        let z = (Rat::zero(), Rat::zero());
                        let dv = l.divs.get(&y).unwrap_or(&z);
                        if !fy.div.close(&dv.0) || !fy.divtax.close(&dv.1) {
                            diffs.push(format!("year {y}: dividends {}/{} but DIVIDEND lines of that year sum to {}/{}", fy.div, fy.divtax, dv.0, dv.1));
                        }
                        let hv = view::RV { years: vec![], holdings: vf.holdings.clone() };
                        let ha = view::RV { years: vec![], holdings: va.holdings.clone() };
                        for d in view::diff_reports(&hv, &ha, Level::L1, &CmpOpts { years: false, ..Default::default() }) {
                            diffs.push(d.detail);
                        }
                    }
                }
                for d in diffs {
                    acc.violation(&ctx.findings, "C07", v("slice-differs", txs, d, cx.clone()));
                }
            }
        }
    }
}

pub fn c07(tier: Tier) -> i32 {
    let mut ctx = Ctx::new("C07", tier, preds::all());
    let env = Env::new();
    // (a) every calendar date: BUY(D-1), SELL(D)
    let (from, to) = (alpha::date(1899, 12, 31), alpha::date(2101, 4, 7));
    let mut dates = vec![];
    let mut d = from;
    while d <= to {
        dates.push(d);
        d += Duration::days(1);
    }
    let ctxr: &Ctx = &ctx;
    let acc = dates
        .par_iter()
        .fold(Acc::new, |mut acc, d| {
            let txs = vec![alpha::buy(*d - Duration::days(1), "X", "10", "10", "0"), alpha::sell(*d, "X", "4", "12", "0")];
            acc.states += 1;
            acc.validated += 1;
            let exp = tax_year_of(*d);
            let out = run_calc(&txs, None, None, &env.cfg);
            match out {
                Outcome::Report(rep) => {
                    let yrs: Vec<i32> = rep.tax_years.iter().filter(|y| !y.disposals.is_empty()).map(|y| y.period.start_year() as i32).collect();
                    if !(1900..=2100).contains(&exp) {
                        acc.violation(&ctxr.findings, "C07", v("out-of-range-date-accepted", &txs, format!("disposal dated {d} belongs to tax year {exp}, outside 1900..2100, yet a report lists years {yrs:?}"), Value::Null));
                    } else if yrs != vec![exp] {
                        acc.violation(&ctxr.findings, "C07", v("year-placement", &txs, format!("disposal dated {d} reported in {yrs:?}, expected exactly [{exp}]"), Value::Null));
                    } else {
                        acc.bump("calendar:placed");
                        if d.format("%m-%d").to_string() == "04-05" || d.format("%m-%d").to_string() == "04-06" {
                            acc.bump("calendar:boundary-day");
                        }
                    }
                }
                Outcome::Err { msg, .. } => {
                    if (1900..=2100).contains(&exp) {
                        acc.violation(&ctxr.findings, "C07", v("in-range-date-refused", &txs, format!("disposal dated {d} (tax year {exp}) refused: {msg}"), Value::Null));
                    } else {
                        acc.bump("calendar:out-of-range-refused");
                    }
                }
                Outcome::Panic(m) => acc.violation(&ctxr.findings, "C07", v("panic", &txs, m, Value::Null)),
            }
            acc
        })
        .reduce(Acc::new, Acc::merge);
    eprintln!("  [C07] calendar sweep: {} dates", acc.states);
    ctx.alphabets.push(json!({"name": "calendar", "description": format!("BUY(D-1) SELL(D) for every D in {from}..{to}"), "states": acc.states}));
    // (b) years graph x every filter
    let a = years_alphabet();
    let n = match tier {
        Tier::Quick => 5,
        Tier::Thorough => 6,
    };
    let ctxr: &Ctx = &ctx;
    let acc2 = a.explore(n, Acc::new, |acc, idx| visit_c07(ctxr, &env, acc, &a.ledger(idx)), Acc::merge);
    eprintln!("  [C07] years N<={n}: {} states", acc2.states);
    let mut dsc = a.describe();
    dsc["max_events"] = json!(n);
    ctx.alphabets.push(dsc);
    let mut acc = Acc::merge(acc, acc2);
    // (c) front-ends: cgt-tool report --year and MCP explain_matching
    crate::cli::c07_frontends(&mut ctx, &mut acc);
    for k in ["calendar:placed", "calendar:boundary-day", "calendar:out-of-range-refused", "filter:year-with-disposals", "filter:year-without-disposals", "filter:out-of-range-refused"] {
        ctx.require(acc.get(k) > 0, &format!("no state exhibited {k}"));
    }
    ctx.bound = json!({"calendar": format!("{from}..{to}"), "years_max_events": n});
    ctx.explanation = "(a) for every calendar date D from 1899-12-31 to 2101-04-07 the ledger BUY(D-1) SELL(D) is executed: the disposal must be reported in exactly the tax year given by an independent month/day rule, and refused outside 1900..2100. (b) every ledger of the `years` graph is executed with no filter and with every year filter (each reported year, neighbours, years without disposals, 1899/1900/2100/2101, -1, 0, 100000): the filtered report must equal the all-years slice leg for leg, or be an empty summary carrying that year's dividends, with identical holdings. (c) the same through `cgt-tool report --year` and MCP explain_matching for boundary dates.".into();
    ctx.assumptions = vec!["exemptions configured for 1900..2100 in-process; scratch config.toml for the process-level part".into()];
    ctx.finish(&acc, "model_checking")
}
