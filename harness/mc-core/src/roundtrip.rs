//! C14: DSL and JSON round trips. Deviation-bounded product of per-field value alphabets around a default
//! transaction of each kind (all single- and two-field departures), every date 0000-01-01..9999-12-31, every
//! ISO-4217 code the tool knows; report(ledger) = report(DSL text) = report(JSON text); MCP + CLI on a subset.
use crate::ledger::Env;
use crate::preds;
use crate::years::years_alphabet;
use cgt_core::dsl::transactions_to_dsl;
use cgt_core::parser::parse_file;
use cgt_core::{Currency, CurrencyAmount, Operation, Transaction};
use chrono::{Duration, NaiveDate};
use mcx::alpha::{self, dec, dsl_text};
use mcx::observe::{Outcome, panic_msg};
use mcx::proc::{Mcp, Scratch, run_tool, tool_call, tool_text};
use mcx::run::{Acc, Ctx, Input, Tier, Violation};
use mcx::view::{self, CmpOpts, Level};
use rayon::prelude::*;
use rust_decimal::Decimal;
use serde_json::{Value, json};
use std::panic::{AssertUnwindSafe, catch_unwind};

pub fn all_currencies() -> Vec<Currency> {
    let mut v = vec![];
    for a in b'A'..=b'Z' {
        for b in b'A'..=b'Z' {
            for c in b'A'..=b'Z' {
                let code = String::from_utf8(vec![a, b, c]).unwrap_or_default();
                if let Some(cur) = Currency::from_code(&code) {
                    v.push(cur);
                }
            }
        }
    }
    v
}

fn zero_label_insensitive(a: &CurrencyAmount, b: &CurrencyAmount) -> bool {
    a.amount == b.amount && (a.currency == b.currency || a.amount.is_zero())
}

/// equality up to the currency label of a zero fee/tax
fn tx_equal(a: &Transaction, b: &Transaction) -> bool {
    if a.date != b.date || a.ticker != b.ticker {
        return false;
    }
    use Operation::*;
    match (&a.operation, &b.operation) {
        (Buy { amount: q1, price: p1, fees: f1 }, Buy { amount: q2, price: p2, fees: f2 }) | (Sell { amount: q1, price: p1, fees: f1 }, Sell { amount: q2, price: p2, fees: f2 }) => q1 == q2 && p1 == p2 && zero_label_insensitive(f1, f2),
        (Dividend { total_value: v1, tax_paid: t1 }, Dividend { total_value: v2, tax_paid: t2 }) => v1 == v2 && zero_label_insensitive(t1, t2),
        (Accumulation { amount: q1, total_value: v1, tax_paid: t1 }, Accumulation { amount: q2, total_value: v2, tax_paid: t2 }) => q1 == q2 && v1 == v2 && zero_label_insensitive(t1, t2),
        (CapReturn { amount: q1, total_value: v1, fees: f1 }, CapReturn { amount: q2, total_value: v2, fees: f2 }) => q1 == q2 && v1 == v2 && zero_label_insensitive(f1, f2),
        (Split { ratio: r1 }, Split { ratio: r2 }) | (Unsplit { ratio: r1 }, Unsplit { ratio: r2 }) => r1 == r2,
        _ => false,
    }
}

/// Exact equality including decimal scale (representation), used for the JSON round trip.
fn repr(t: &Transaction) -> String {
    format!("{:?}", t)
}

fn check_list(ctx: &Ctx, acc: &mut Acc, txs: &[Transaction], label: &str) {
    acc.states += 1;
    acc.validated += 1;
    let input = || Input::Json(json!({"transactions_debug": txs.iter().map(repr).collect::<Vec<_>>(), "dsl_by_independent_printer": dsl_text(txs)}));
    let cx = json!({"profile": label});
    let r = catch_unwind(AssertUnwindSafe(|| {
        let mut problems: Vec<(&'static str, String)> = vec![];
        // DSL
        let dsl = transactions_to_dsl(txs);
        match parse_file(&dsl) {
            Err(e) => problems.push(("dsl-reparse-fails", format!("written DSL does not parse: {dsl:?}: {}", e.to_string().chars().take(200).collect::<String>()))),
            Ok(back) => {
                if back.len() != txs.len() || !back.iter().zip(txs.iter()).all(|(a, b)| tx_equal(a, b)) {
                    problems.push(("dsl-roundtrip", format!("DSL {dsl:?} parses back to {:?}", back.iter().map(repr).collect::<Vec<_>>())));
                }
                let dsl2 = transactions_to_dsl(&back);
                if dsl2 != dsl {
                    problems.push(("dsl-not-idempotent", format!("writing again gives {dsl2:?} instead of {dsl:?}")));
                }
            }
        }
        // JSON
        match serde_json::to_string(txs) {
            Err(e) => problems.push(("json-write-fails", e.to_string())),
            Ok(js) => match serde_json::from_str::<Vec<Transaction>>(&js) {
                Err(e) => problems.push(("json-reparse-fails", format!("written JSON does not read back: {js}: {e}"))),
                Ok(back) => {
                    if back != txs {
                        problems.push(("json-roundtrip", format!("JSON {js} reads back as {:?}", back.iter().map(repr).collect::<Vec<_>>())));
                    }
                    match serde_json::to_string(&back) {
                        Ok(js2) if js2 == js => {}
                        other => problems.push(("json-not-idempotent", format!("{other:?}"))),
                    }
                }
            },
        }
        problems
    }));
    match r {
        Ok(problems) => {
            for (c, d) in problems {
                acc.violation(&ctx.findings, "C14", Violation { clause: c.into(), input: input(), detail: d, context: cx.clone() });
            }
        }
        Err(p) => acc.violation(&ctx.findings, "C14", Violation { clause: "panic".into(), input: input(), detail: panic_msg(p), context: cx }),
    }
}

#[derive(Clone)]
struct Fields {
    date: NaiveDate,
    ticker: String,
    qty: Decimal,
    a1: CurrencyAmount, // price / total
    a2: CurrencyAmount, // fees / tax
}
fn build(kind: usize, f: &Fields) -> Transaction {
    let op = match kind {
        0 => Operation::Buy { amount: f.qty, price: f.a1.clone(), fees: f.a2.clone() },
        1 => Operation::Sell { amount: f.qty, price: f.a1.clone(), fees: f.a2.clone() },
        2 => Operation::Dividend { total_value: f.a1.clone(), tax_paid: f.a2.clone() },
        3 => Operation::Accumulation { amount: f.qty, total_value: f.a1.clone(), tax_paid: f.a2.clone() },
        4 => Operation::CapReturn { amount: f.qty, total_value: f.a1.clone(), fees: f.a2.clone() },
        5 => Operation::Split { ratio: f.qty },
        _ => Operation::Unsplit { ratio: f.qty },
    };
    Transaction { date: f.date, ticker: f.ticker.clone(), operation: op }
}

pub fn c14(tier: Tier) -> i32 {
    let mut ctx = Ctx::new("C14", tier, preds::all());
    let env = Env::new();
    let currencies = all_currencies();
    ctx.require(currencies.len() > 100, "currency list too small");
    let default = Fields { date: alpha::date(2024, 1, 15), ticker: "AAPL".into(), qty: dec("10"), a1: CurrencyAmount::new(dec("150"), Currency::GBP), a2: CurrencyAmount::new(dec("3"), Currency::GBP) };
    let pos_decimals: Vec<Decimal> = ["1", "1.10", "0.0000000000000000000000000001", "123456789012345678", "79228162514264337593543950335", "0.5", "0.0000001", "7.000", "100"].iter().map(|s| dec(s)).collect();
    let mut amounts = pos_decimals.clone();
    amounts.push(dec("0"));
    amounts.push(dec("0.00"));
    let tickers = ["A", "7", "Z9Z9", "BUY", "TAX", "USD", "FEES", "TOTAL", "RATIO", "SELL", "E5", "ABCDEFGHIJKLMNOPQRSTUVWXYZ0123"];
    let dates12 = [(1, 1, 1), (999, 12, 31), (1900, 4, 5), (1999, 12, 31), (2000, 2, 29), (2024, 2, 29), (2024, 4, 5), (2024, 4, 6), (2100, 2, 28), (2101, 4, 6), (9999, 12, 31), (0, 1, 1)];
    let some_cur = [Currency::GBP, Currency::USD, Currency::EUR, Currency::JPY, Currency::BHD];
    // field departures
    #[derive(Clone)]
    enum Dep {
        Date(NaiveDate),
        Ticker(String),
        Qty(Decimal),
        A1(Decimal),
        A1Cur(Currency),
        A2(Decimal),
        A2Cur(Currency),
    }
    let mut deps: Vec<Dep> = vec![];
    for (y, m, d) in dates12 {
        if let Some(dt) = NaiveDate::from_ymd_opt(y, m, d) {
            deps.push(Dep::Date(dt));
        }
    }
    for t in tickers {
        deps.push(Dep::Ticker(t.to_string()));
    }
    for q in &pos_decimals {
        deps.push(Dep::Qty(*q));
    }
    for a in &amounts {
        deps.push(Dep::A1(*a));
        deps.push(Dep::A2(*a));
    }
    for c in &currencies {
        deps.push(Dep::A1Cur(*c));
        deps.push(Dep::A2Cur(*c));
    }
    let site = |d: &Dep| match d {
        Dep::Date(_) => 0,
        Dep::Ticker(_) => 1,
        Dep::Qty(_) => 2,
        Dep::A1(_) => 3,
        Dep::A1Cur(_) => 4,
        Dep::A2(_) => 5,
        Dep::A2Cur(_) => 6,
    };
    let apply = |f: &mut Fields, d: &Dep| match d {
        Dep::Date(x) => f.date = *x,
        Dep::Ticker(x) => f.ticker = x.clone(),
        Dep::Qty(x) => f.qty = *x,
        Dep::A1(x) => f.a1.amount = *x,
        Dep::A1Cur(x) => f.a1.currency = *x,
        Dep::A2(x) => f.a2.amount = *x,
        Dep::A2Cur(x) => f.a2.currency = *x,
    };
    let two_field = tier == Tier::Thorough;
    // restrict the currency departures in pairs to a handful (all currencies are covered as single departures)
    let pair_deps: Vec<Dep> = deps.iter().filter(|d| match d { Dep::A1Cur(c) | Dep::A2Cur(c) => some_cur.contains(c), _ => true }).cloned().collect();
    let ctxr: &Ctx = &ctx;
    let mut acc = (0..7usize)
        .into_par_iter()
        .fold(Acc::new, |mut acc, kind| {
            check_list(ctxr, &mut acc, &[build(kind, &default)], "default");
            for d in &deps {
                let mut f = default.clone();
                apply(&mut f, d);
                check_list(ctxr, &mut acc, &[build(kind, &f)], "single-field departure");
                acc.bump("departures:1");
            }
            let pd: &Vec<Dep> = if two_field { &pair_deps } else { &pair_deps };
            let stride = if two_field { 1 } else { 1 };
            for (i, d1) in pd.iter().enumerate().step_by(stride) {
                for d2 in pd.iter().skip(i + 1) {
                    if site(d1) == site(d2) {
                        continue;
                    }
                    let mut f = default.clone();
                    apply(&mut f, d1);
                    apply(&mut f, d2);
                    check_list(ctxr, &mut acc, &[build(kind, &f)], "two-field departure");
                    acc.bump("departures:2");
                }
            }
            acc
        })
        .reduce(Acc::new, Acc::merge);
    eprintln!("  [C14] field departures: {} transactions", acc.states);
    // every calendar date on a BUY
    let first = NaiveDate::from_ymd_opt(0, 1, 1).unwrap_or(alpha::date(1, 1, 1));
    let last = alpha::date(9999, 12, 31);
    let ndays = (last - first).num_days();
    let dacc = (0..=ndays)
        .into_par_iter()
        .fold(Acc::new, |mut acc, off| {
            let mut f = default.clone();
            f.date = first + Duration::days(off);
            check_list(ctxr, &mut acc, &[build((off % 7) as usize, &f)], "date sweep");
            acc.bump("dates");
            acc
        })
        .reduce(Acc::new, Acc::merge);
    eprintln!("  [C14] date sweep: {} dates", dacc.states);
    acc = Acc::merge(acc, dacc);
    // multi-line lists + report equality: every ledger of the `years` graph with <= n events
    let a = years_alphabet();
    let n = if tier == Tier::Quick { 3 } else { 4 };
    let racc = a.explore(
        n,
        Acc::new,
        |acc, idx| {
            let l = a.ledger(idx);
            if l.is_empty() {
                return;
            }
            check_list(ctxr, acc, &l, "years ledger");
            let dsl = transactions_to_dsl(&l);
            let js = serde_json::to_string(&l).unwrap_or_default();
            let via_dsl = parse_file(&dsl).ok();
            let via_json = serde_json::from_str::<Vec<Transaction>>(&js).ok();
            let r0 = env.calc(&l);
            for (name, v) in [("DSL", via_dsl), ("JSON", via_json)] {
                let Some(v) = v else { continue };
                acc.bump("report-equality-compared");
                match (&r0, env.calc(&v)) {
                    (Outcome::Report(a0), Outcome::Report(b0)) => {
                        for d in view::diff_reports(&view::view(&b0), &view::view(a0), Level::L3, &CmpOpts::default()) {
                            acc.violation(&ctxr.findings, "C14", Violation { clause: "report-differs-after-roundtrip".into(), input: Input::Ledger(l.clone()), detail: format!("via {name}: {}", d.detail), context: json!({"profile": "years ledger"}) });
                        }
                    }
                    (Outcome::Err { .. }, Outcome::Err { .. }) => {}
                    _ => acc.violation(&ctxr.findings, "C14", Violation { clause: "report-differs-after-roundtrip".into(), input: Input::Ledger(l.clone()), detail: format!("via {name}: acceptance differs"), context: json!({"profile": "years ledger"}) }),
                }
            }
        },
        Acc::merge,
    );
    eprintln!("  [C14] years ledgers: {} lists", racc.states);
    acc = Acc::merge(acc, racc);
    // zero FEES/TAX clauses labelled with a currency: the DSL writer drops such a clause (the statement lets the label
    // go), so the ledger as given (and its JSON, which keeps the label) and its DSL rendering must still produce the
    // same report — also when that currency has no rate for the month (a rated month, a month beyond the tables; GBP,
    // two rated currencies, the ISO test code XTS which never has a rate)
    {
        let money = |v: &str, c: &str| format!("{v} {c}");
        let mut n_lists = 0u64;
        for cur in ["GBP", "USD", "EUR", "XTS"] {
            for (y, m) in [(2024, 3), (2031, 1)] {
                let d = |day: u32| alpha::date(y, m, day);
                let z = money("0", cur);
                let lists: Vec<Vec<Transaction>> = vec![
                    vec![alpha::buy(d(1), "X", "10", "10", &z), alpha::sell(d(20), "X", "4", "12", "0.5")],
                    vec![alpha::buy(d(1), "X", "10", "10", "1"), alpha::sell(d(20), "X", "4", "12", &z)],
                    vec![alpha::buy(d(1), "X", "10", "10", "1"), alpha::dividend(d(5), "X", "5", &z), alpha::sell(d(20), "X", "4", "12", "0")],
                    vec![alpha::buy(d(1), "X", "10", "10", "1"), alpha::accum(d(5), "X", "10", "7", &z), alpha::sell(d(20), "X", "4", "12", "0")],
                    vec![alpha::buy(d(1), "X", "10", "10", "1"), alpha::capret(d(5), "X", "10", "5", &z), alpha::sell(d(20), "X", "4", "12", "0")],
                ];
                for l in lists {
                    n_lists += 1;
                    acc.states += 1;
                    acc.bump("zero-labelled-clause-lists");
                    let dsl = transactions_to_dsl(&l);
                    let js = serde_json::to_string(&l).unwrap_or_default();
                    let r0 = env.calc(&l);
                    if matches!(r0, Outcome::Report(_)) {
                        acc.bump("zero-labelled-clause-lists-accepted");
                    }
                    for (name, v) in [("DSL", parse_file(&dsl).ok()), ("JSON", serde_json::from_str::<Vec<Transaction>>(&js).ok())] {
                        let Some(v) = v else { continue };
                        acc.validated += 1;
                        acc.bump("report-equality-compared");
                        let cx = json!({"profile": "zero-labelled clauses", "variant": format!("zero clause in {cur}, {y}-{m:02}")});
                        match (&r0, env.calc(&v)) {
                            (Outcome::Report(a0), Outcome::Report(b0)) => {
                                for df in view::diff_reports(&view::view(&b0), &view::view(a0), Level::L3, &CmpOpts::default()) {
                                    acc.violation(&ctxr.findings, "C14", Violation { clause: "report-differs-after-roundtrip".into(), input: Input::Ledger(l.clone()), detail: format!("via {name}: {}", df.detail), context: cx.clone() });
                                }
                            }
                            (Outcome::Err { .. }, Outcome::Err { .. }) => {}
                            (a0, b0) => acc.violation(&ctxr.findings, "C14", Violation { clause: "report-differs-after-roundtrip".into(), input: Input::Ledger(l.clone()), detail: format!("via {name}: the ledger as given is {}, its {name} rendering is {}", a0.tag(), b0.tag()), context: cx.clone() }),
                        }
                    }
                }
            }
        }
        eprintln!("  [C14] zero-labelled clauses: {n_lists} lists");
    }
    // front-ends on a subset: MCP parse_transactions / convert_to_dsl / calculate_report (DSL and JSON text) and the CLI
    frontends(&ctx, &mut acc, &a);
    for k in ["departures:1", "dates", "report-equality-compared", "frontend:ledgers"] {
        ctx.require(acc.get(k) > 0, &format!("nothing explored for {k}"));
    }
    ctx.bound = json!({"kinds": 7, "single_field_departures": "all", "two_field_departures": "all pairs (currencies restricted to GBP/USD/EUR/JPY/BHD in pairs)", "dates": "0000-01-01..9999-12-31", "years_ledgers_max_events": n});
    ctx.alphabets.push(json!({"decimals": amounts.iter().map(|d| d.to_string()).collect::<Vec<_>>(), "tickers": tickers, "currencies": currencies.len(), "dates12": format!("{dates12:?}")}));
    ctx.explanation = "States are transaction lists. From a default transaction of each of the seven kinds every single-field and every two-field departure over the value alphabets (decimals of extreme scale and magnitude, every ISO code, keyword-like tickers, boundary dates) is generated, plus one transaction for every calendar date 0000-01-01..9999-12-31, plus every ledger of the `years` graph; each list is written with the tool's DSL writer and parsed back (equal up to the label of a zero fee/tax; writing idempotent), serialised to the tool's JSON and read back (identical), and reports computed from the list, from its DSL text and from its JSON text are compared leg for leg. A subset goes through MCP parse_transactions / convert_to_dsl / calculate_report and the CLI.".into();
    ctx.assumptions = vec!["tickers upper-case alphanumeric, amounts non-negative, quantities and ratios positive (the DSL-expressible lists of the statement)".into()];
    ctx.finish(&acc, "model_checking")
}

fn frontends(ctx: &Ctx, acc: &mut Acc, a: &mcx::alpha::Alphabet) {
    crate::cli::need_tool();
    // a fixed, deterministic subset: every 97th accepted ledger of size 3 would need a pass; simply take ledgers built from index triples
    let n = a.evs.len();
    let mut ledgers: Vec<Vec<Transaction>> = vec![];
    let mut i = 0usize;
    while ledgers.len() < 40 && i < 4000 {
        let idx = [0usize, 1, 2 + (i * 7) % (n - 2), 2 + (i * 13 + 5) % (n - 2)];
        let mut idx: Vec<usize> = idx.to_vec();
        idx.sort();
        idx.dedup();
        if idx.iter().enumerate().all(|(k, &x)| idx[..k].iter().all(|&p| !a.conflict[p][x])) {
            ledgers.push(a.ledger(&idx));
        }
        i += 1;
    }
    // every list also newest-first (a list is a list: no front-end may reorder it)
    let reversed: Vec<Vec<Transaction>> = ledgers.iter().map(|l| l.iter().rev().cloned().collect()).collect();
    ledgers.extend(reversed);
    let part = ledgers
        .par_iter()
        .fold(Acc::new, |mut acc, l| {
            acc.states += 1;
            acc.validated += 1;
            acc.bump("frontend:ledgers");
            let sc = Scratch::new();
            sc.all_years_config();
            let dsl = transactions_to_dsl(l);
            let js = serde_json::to_string(l).unwrap_or_default();
            sc.write("in.cgt", dsl.as_bytes());
            let cli_report = run_tool(&["report", "in.cgt", "--format", "json"], &sc, crate::cli::T);
            let cli_parse = run_tool(&["parse", "in.cgt"], &sc, crate::cli::T);
            let mut m = Mcp::start(&sc);
            let ids: Vec<Value> = (1..=5).map(|i| json!(i)).collect();
            m.send_raw(&tool_call(&ids[0], "calculate_report", json!({"transactions": dsl})));
            m.send_raw(&tool_call(&ids[1], "calculate_report", json!({"transactions": js})));
            m.send_raw(&tool_call(&ids[2], "convert_to_dsl", json!({"transactions": js})));
            m.send_raw(&tool_call(&ids[3], "parse_transactions", json!({"transactions": dsl})));
            m.send_raw(&tool_call(&ids[4], "parse_transactions", json!({"transactions": js})));
            let keys: Vec<String> = ids.iter().map(|i| i.to_string()).collect();
            let ok = m.wait_for(&keys, std::time::Duration::from_secs(15));
            let push = |acc: &mut Acc, clause: &str, detail: String| {
                acc.violation(&ctx.findings, "C14", Violation { clause: clause.into(), input: Input::Ledger(l.clone()), detail, context: json!({"profile": "front-ends"}) });
            };
            if !ok {
                push(&mut acc, "mcp-no-response", "MCP did not answer all five requests within 15 s".into());
                return acc;
            }
            let t: Vec<Result<String, String>> = keys.iter().map(|k| tool_text(&m.got[k][0])).collect();
            let pj = |s: &Result<String, String>| s.as_ref().ok().and_then(|x| serde_json::from_str::<Value>(x).ok());
            if t[0] != t[1] {
                push(&mut acc, "mcp-report-dsl-vs-json", format!("calculate_report on the DSL text and on the JSON text differ: {:?} vs {:?}", t[0].as_ref().map(|s| s.len()), t[1].as_ref().map(|s| s.len())));
            }
            if t[2].as_ref().ok() != Some(&dsl) {
                push(&mut acc, "mcp-convert-to-dsl", format!("convert_to_dsl gives {:?}, the writer gives {dsl:?}", t[2]));
            }
            if pj(&t[3]) != pj(&t[4]) || pj(&t[3]).is_none() {
                push(&mut acc, "mcp-parse-dsl-vs-json", "parse_transactions on DSL and JSON text differ".into());
            }
            if cli_parse.ok() {
                if serde_json::from_str::<Value>(&cli_parse.out()).ok() != pj(&t[3]) {
                    push(&mut acc, "cli-parse-vs-mcp", "cgt-tool parse and MCP parse_transactions differ".into());
                }
            } else {
                push(&mut acc, "cli-parse-fails", cli_parse.err());
            }
            // CLI report vs MCP report (tax_years, holdings)
            let cli_v: Option<Value> = if cli_report.ok() { serde_json::from_str(&cli_report.out()).ok() } else { None };
            match (cli_v, pj(&t[0])) {
                (Some(c), Some(mv)) => {
                    if c["tax_years"] != mv["tax_years"] || c["holdings"] != mv["holdings"] {
                        push(&mut acc, "cli-report-vs-mcp", "cgt-tool report --format json and MCP calculate_report differ in tax_years/holdings".into());
                    }
                }
                (None, None) => {}
                (c, mv) => push(&mut acc, "cli-report-vs-mcp", format!("one front-end fails and the other does not (cli ok: {}, mcp ok: {})", c.is_some(), mv.is_some())),
            }
            let _ = m.finish();
            acc
        })
        .reduce(Acc::new, Acc::merge);
    let merged = Acc::merge(std::mem::take(acc), part);
    *acc = merged;
}
