//! Process-level parts of the engines: the real `cgt-tool` binary and `cgt-tool mcp` sessions.
use chrono::{Duration as CDuration, NaiveDate};
use mcx::alpha::{self, dsl_text};
use mcx::proc::{self, Mcp, ProcOut, Scratch, run_tool, tool_call, tool_text};
use mcx::refmodel::tax_year_of;
use mcx::run::{Acc, Ctx, Input, Violation, machinery_failure};
use rayon::prelude::*;
use serde_json::{Value, json};
use std::time::Duration;

pub const T: Duration = Duration::from_secs(20);

pub fn need_tool() {
    if !proc::tool_exists() {
        machinery_failure("cgt-tool binary missing under /verif/target/repo (run ./setup.sh or ./check)");
    }
}

fn viol(clause: &str, input: Value, detail: String, context: Value) -> Violation {
    Violation { clause: clause.into(), input: Input::Json(input), detail, context }
}

fn exempt_of(report_json: &str, year: i32) -> Option<String> {
    let v: Value = serde_json::from_str(report_json).ok()?;
    for y in v["tax_years"].as_array()? {
        if y["period"].as_str()?.starts_with(&format!("{year}/")) {
            return y["exempt_amount"].as_str().map(String::from);
        }
    }
    None
}

fn same_number(a: &str, b: &str) -> bool {
    use std::str::FromStr;
    match (rust_decimal::Decimal::from_str(a), rust_decimal::Decimal::from_str(b)) {
        (Ok(x), Ok(y)) => x == y,
        _ => false,
    }
}

/// C04: the real Config::load_with_overrides through the CLI over a menu of override files.
pub fn c04_config_menu(ctx: &mut Ctx, acc: &mut Acc) {
    need_tool();
    let l2023 = "2023-05-01 BUY X 10 @ 10\n2023-06-01 SELL X 4 @ 12\n";
    let l2030 = "2023-05-01 BUY X 10 @ 10\n2023-06-01 SELL X 4 @ 12\n2030-06-01 SELL X 4 @ 12\n";
    let add2030 = "[exemptions]\n\"2030\" = 1234\n";
    let rep2023 = "[exemptions]\n\"2023\" = 777\n";
    let malformed = "[exemptions\n\"2030\" = = 5\n";
    struct Case {
        name: &'static str,
        cwd: Option<&'static str>,
        home: Option<&'static str>,
        ledger: &'static str,
        /// expected exemption per year, None = run must fail
        expect: Option<Vec<(i32, &'static str)>>,
        /// when true a clean failure is also acceptable
        may_fail: bool,
    }
    let cases = vec![
        Case { name: "embedded-only/2023", cwd: None, home: None, ledger: l2023, expect: Some(vec![(2023, "6000")]), may_fail: false },
        Case { name: "embedded-only/2030-unconfigured", cwd: None, home: None, ledger: l2030, expect: None, may_fail: false },
        Case { name: "cwd-adds-2030", cwd: Some(add2030), home: None, ledger: l2030, expect: Some(vec![(2023, "6000"), (2030, "1234")]), may_fail: false },
        Case { name: "cwd-replaces-2023", cwd: Some(rep2023), home: None, ledger: l2023, expect: Some(vec![(2023, "777")]), may_fail: false },
        Case { name: "cwd-replaces-2023/2030-still-unconfigured", cwd: Some(rep2023), home: None, ledger: l2030, expect: None, may_fail: false },
        Case { name: "home-adds-2030", cwd: None, home: Some(add2030), ledger: l2030, expect: Some(vec![(2023, "6000"), (2030, "1234")]), may_fail: false },
        Case { name: "home-replaces-2023", cwd: None, home: Some(rep2023), ledger: l2023, expect: Some(vec![(2023, "777")]), may_fail: false },
        Case { name: "cwd-adds-2030+home-replaces-2023", cwd: Some(add2030), home: Some(rep2023), ledger: l2030, expect: Some(vec![(2023, "777"), (2030, "1234")]), may_fail: false },
        Case { name: "malformed-cwd/2023", cwd: Some(malformed), home: None, ledger: l2023, expect: Some(vec![(2023, "6000")]), may_fail: true },
        Case { name: "malformed-cwd/2030", cwd: Some(malformed), home: None, ledger: l2030, expect: None, may_fail: false },
        Case { name: "malformed-home/2030", cwd: None, home: Some(malformed), ledger: l2030, expect: None, may_fail: false },
    ];
    for c in &cases {
        let sc = Scratch::new();
        if let Some(s) = c.cwd {
            sc.write("config.toml", s.as_bytes());
        }
        if let Some(s) = c.home {
            sc.write("home/.config/cgt-tool/config.toml", s.as_bytes());
        }
        sc.write("in.cgt", c.ledger.as_bytes());
        let o = run_tool(&["report", "in.cgt", "--format", "json"], &sc, T);
        acc.states += 1;
        acc.validated += 1;
        acc.bump("config-menu:cases");
        let input = json!({"case": c.name, "ledger": c.ledger, "cwd_config": c.cwd, "home_config": c.home});
        let cx = json!({"exit": o.code, "stderr": o.err().chars().take(300).collect::<String>()});
        match &c.expect {
            None => {
                if o.ok() {
                    acc.violation(&ctx.findings, "C04", viol("unconfigured-year-accepted", input, format!("2030/31 has no configured exemption yet the CLI produced a report (exemption shown: {:?})", exempt_of(&o.out(), 2030)), cx));
                } else if !o.clean_failure() || !o.stdout.is_empty() {
                    acc.violation(&ctx.findings, "C04", viol("unconfigured-year-error", input, "failure is not clean (panic, signal, or output on stdout)".into(), cx));
                } else if !o.err().contains("2030") {
                    acc.violation(&ctx.findings, "C04", viol("unconfigured-year-error", input, "error does not name the year 2030".into(), cx));
                }
            }
            Some(exp) => {
                if !o.ok() {
                    if !(c.may_fail && o.clean_failure()) {
                        acc.violation(&ctx.findings, "C04", viol("configured-run-failed", input, "the CLI failed although every reported year is configured".into(), cx));
                    }
                    continue;
                }
                for (y, want) in exp {
                    let got = exempt_of(&o.out(), *y);
                    if !got.as_deref().map(|g| same_number(g, want)).unwrap_or(false) {
                        acc.violation(&ctx.findings, "C04", viol("exemption", input.clone(), format!("tax year {y}: exemption shown {got:?}, configured {want}"), cx.clone()));
                    }
                }
            }
        }
    }
    ctx.alphabets.push(json!({"name": "config-menu", "description": "cgt-tool report over {no override, ./config.toml adding/replacing a year, ~/.config/cgt-tool/config.toml likewise, both (disjoint years), malformed file} x {ledger within the embedded table, ledger reaching 2030/31}", "states": cases.len()}));
}

fn boundary_dates() -> Vec<NaiveDate> {
    let mut v = vec![];
    for y in 1900..=2101 {
        v.push(alpha::date(y, 4, 5));
        v.push(alpha::date(y, 4, 6));
    }
    let mut d = alpha::date(2023, 4, 1);
    while d <= alpha::date(2024, 4, 10) {
        if !v.contains(&d) {
            v.push(d);
        }
        d += CDuration::days(1);
    }
    v.sort();
    v
}

fn ledger_for(d: NaiveDate) -> String {
    dsl_text(&[alpha::buy(d - CDuration::days(10), "X", "10", "10", "0"), alpha::sell(d, "X", "4", "12", "0")])
}

fn disposals_in(report_json: &str) -> Option<Vec<(String, String)>> {
    let v: Value = serde_json::from_str(report_json).ok()?;
    let mut out = vec![];
    for y in v["tax_years"].as_array()? {
        for d in y["disposals"].as_array()? {
            out.push((y["period"].as_str()?.to_string(), d["date"].as_str()?.to_string()));
        }
    }
    Some(out)
}

/// C07 (c): `cgt-tool report --year` and MCP explain_matching on boundary dates.
pub fn c07_frontends(ctx: &mut Ctx, acc: &mut Acc) {
    need_tool();
    let dates = boundary_dates();
    // CLI: for the two April days of every year, the year report of the right year lists the disposal, the neighbour does not
    let cli_dates: Vec<NaiveDate> = dates.iter().copied().filter(|d| d.format("%m-%d").to_string() == "04-05" || d.format("%m-%d").to_string() == "04-06").collect();
    let ctxr: &Ctx = ctx;
    let cli_acc = cli_dates
        .par_iter()
        .fold(Acc::new, |mut acc, d| {
            let ty = tax_year_of(*d);
            let other = if d.format("%m-%d").to_string() == "04-05" { ty + 1 } else { ty - 1 };
            let sc = Scratch::new();
            sc.all_years_config();
            let led = ledger_for(*d);
            sc.write("in.cgt", led.as_bytes());
            for (y, should_list) in [(ty, true), (other, false)] {
                let o: ProcOut = run_tool(&["report", "in.cgt", "--format", "json", "--year", &y.to_string()], &sc, T);
                acc.states += 1;
                acc.validated += 1;
                acc.bump("cli:--year runs");
                let input = json!({"ledger": led, "args": format!("report --format json --year {y}")});
                let cx = json!({"exit": o.code, "stderr": o.err().chars().take(300).collect::<String>()});
                let in_range = (1900..=2100).contains(&y);
                let disposal_year_ok = (1900..=2100).contains(&ty);
                if in_range && !disposal_year_ok {
                    // the filter is a supported year, the ledger's only disposal lies in an unsupported one: the
                    // statement allows both a clean refusal and a year report that simply does not list it
                    if o.ok() {
                        let listed = disposals_in(&o.out()).unwrap_or_default();
                        if !listed.is_empty() {
                            acc.violation(&ctxr.findings, "C07", viol("year-placement", input, format!("disposal of {d} (tax year {ty}) listed in the {y} report: {listed:?}"), cx));
                        }
                    } else if !o.clean_failure() || !o.stdout.is_empty() {
                        acc.violation(&ctxr.findings, "C07", viol("unclean-failure", input, "failure is not clean".into(), cx));
                    }
                    continue;
                }
                if !in_range {
                    // the filter itself is outside the supported range: must fail cleanly
                    if o.ok() {
                        acc.violation(&ctxr.findings, "C07", viol("out-of-range-year-accepted", input, format!("--year {y} with a disposal of tax year {ty}: a report was produced"), cx));
                    } else if !o.clean_failure() || !o.stdout.is_empty() {
                        acc.violation(&ctxr.findings, "C07", viol("unclean-failure", input, "failure is not clean".into(), cx));
                    } else {
                        acc.bump("cli:out-of-range-refused");
                    }
                    continue;
                }
                if !o.ok() {
                    acc.violation(&ctxr.findings, "C07", viol("slice-refused", input, format!("--year {y} failed"), cx));
                    continue;
                }
                let listed = disposals_in(&o.out()).unwrap_or_default();
                let has = listed.iter().any(|(p, dd)| dd == &d.format("%Y-%m-%d").to_string() && p.starts_with(&format!("{y}/")));
                if should_list && (!has || listed.len() != 1) {
                    acc.violation(&ctxr.findings, "C07", viol("year-placement", input, format!("disposal of {d} not listed (exactly once) in the {y} report: {listed:?}"), cx));
                } else if !should_list && !listed.is_empty() {
                    acc.violation(&ctxr.findings, "C07", viol("year-placement", input, format!("disposal of {d} belongs to {ty} but the {y} report lists {listed:?}"), cx));
                } else {
                    acc.bump("cli:placed");
                }
            }
            acc
        })
        .reduce(Acc::new, Acc::merge);
    let merged = Acc::merge(std::mem::take(acc), cli_acc);
    *acc = merged;
    // MCP: explain_matching re-derives the tax year itself; it must find every disposal calculate_report lists
    let chunks: Vec<Vec<NaiveDate>> = dates.chunks(dates.len().div_ceil(8)).map(|c| c.to_vec()).collect();
    let ctxr: &Ctx = ctx;
    let mcp_acc = chunks
        .par_iter()
        .fold(Acc::new, |mut acc, chunk| {
            let sc = Scratch::new();
            sc.all_years_config();
            let mut m = Mcp::start(&sc);
            for (i, d) in chunk.iter().enumerate() {
                let led = ledger_for(*d);
                let ds = d.format("%Y-%m-%d").to_string();
                let (ida, idb) = (json!(2 * i + 1), json!(2 * i + 2));
                m.send_raw(&tool_call(&ida, "calculate_report", json!({"transactions": led})));
                m.send_raw(&tool_call(&idb, "explain_matching", json!({"transactions": led, "disposal_date": ds, "ticker": "x"})));
                let ok = m.wait_for(&[ida.to_string(), idb.to_string()], Duration::from_secs(10));
                acc.states += 1;
                acc.validated += 1;
                acc.bump("mcp:explain_matching requests");
                let input = json!({"ledger": led, "disposal_date": ds});
                if !ok {
                    acc.violation(&ctxr.findings, "C07", viol("mcp-no-response", input, "no response within 10 s".into(), Value::Null));
                    break;
                }
                let calc = tool_text(&m.got[&ida.to_string()][0]);
                let expl = tool_text(&m.got[&idb.to_string()][0]);
                let ty = tax_year_of(*d);
                match (&calc, &expl) {
                    (Ok(c), Ok(e)) => {
                        let listed = disposals_in(c).unwrap_or_default();
                        let right = listed.len() == 1 && listed[0].0.starts_with(&format!("{ty}/")) && listed[0].1 == ds;
                        if !right {
                            acc.violation(&ctxr.findings, "C07", viol("year-placement", input.clone(), format!("MCP calculate_report lists {listed:?}, expected one disposal in {ty}"), Value::Null));
                        }
                        let ev: Value = serde_json::from_str(e).unwrap_or(Value::Null);
                        if ev["disposal_date"].as_str() != Some(ds.as_str()) || ev["matches"].as_array().map(|a| a.is_empty()).unwrap_or(true) {
                            acc.violation(&ctxr.findings, "C07", viol("explain-mismatch", input, format!("explain_matching answer does not describe the disposal: {e}"), Value::Null));
                        } else {
                            acc.bump("mcp:explained");
                        }
                    }
                    (Ok(c), Err(e)) => {
                        acc.violation(&ctxr.findings, "C07", viol("explain-cannot-find-listed-disposal", input, format!("calculate_report lists {:?} but explain_matching fails: {}", disposals_in(c), e.chars().take(200).collect::<String>()), Value::Null));
                    }
                    (Err(_), Err(_)) => {
                        if (1900..=2100).contains(&ty) {
                            acc.violation(&ctxr.findings, "C07", viol("in-range-date-refused", input, format!("both tools refuse a disposal of tax year {ty}"), Value::Null));
                        } else {
                            acc.bump("mcp:out-of-range-refused");
                        }
                    }
                    (Err(c), Ok(_)) => {
                        acc.violation(&ctxr.findings, "C07", viol("explain-without-report", input, format!("explain_matching succeeds but calculate_report fails: {}", c.chars().take(200).collect::<String>()), Value::Null));
                    }
                }
            }
            let (code, _, _) = m.finish();
            if code != Some(0) {
                acc.violation(&ctxr.findings, "C07", viol("mcp-exit", json!({"session": "explain sweep"}), format!("server exit status {code:?} after EOF"), Value::Null));
            }
            acc
        })
        .reduce(Acc::new, Acc::merge);
    let merged = Acc::merge(std::mem::take(acc), mcp_acc);
    *acc = merged;
    // "computed from the full history": ledgers whose later years carry a repurchase on the last day of the 30-day
    // window and a capital return more than a year after the disposal; the one-year report (CLI --year, MCP year) and
    // explain_matching must show the disposal exactly as the all-years report does
    let later: Vec<NaiveDate> = (2016..=2025).flat_map(|y| [alpha::date(y, 4, 5), alpha::date(y, 4, 6), alpha::date(y, 9, 1)]).collect();
    let ctxr: &Ctx = ctx;
    let part = later
        .par_iter()
        .fold(Acc::new, |mut acc, d| {
            let led = dsl_text(&[
                alpha::buy(*d - CDuration::days(400), "X", "100", "10", "1"),
                alpha::sell(*d, "X", "60", "12", "0.5"),
                alpha::buy(*d + CDuration::days(30), "X", "40", "11", "1"),
                alpha::capret(*d + CDuration::days(420), "X", "80", "200", "0"),
                alpha::sell(*d + CDuration::days(500), "X", "10", "13", "0"),
            ]);
            let ds = d.format("%Y-%m-%d").to_string();
            let ty = tax_year_of(*d);
            let sc = Scratch::new();
            sc.all_years_config();
            sc.write("in.cgt", led.as_bytes());
            let all = run_tool(&["report", "in.cgt", "--format", "json"], &sc, T);
            let one = run_tool(&["report", "in.cgt", "--format", "json", "--year", &ty.to_string()], &sc, T);
            let mut m = Mcp::start(&sc);
            m.send_raw(&tool_call(&json!(1), "explain_matching", json!({"transactions": led, "disposal_date": ds, "ticker": "X"})));
            m.send_raw(&tool_call(&json!(2), "calculate_report", json!({"transactions": led, "year": ty})));
            let ok = m.wait_for(&["1".to_string(), "2".to_string()], Duration::from_secs(15));
            acc.states += 1;
            acc.validated += 1;
            acc.bump("full-history ledgers");
            let input = json!({"ledger": led, "disposal_date": ds});
            let find = |text: &str| -> Option<Value> {
                let v: Value = serde_json::from_str(text).ok()?;
                for y in v["tax_years"].as_array()? {
                    for dd in y["disposals"].as_array()? {
                        if dd["date"].as_str() == Some(ds.as_str()) {
                            return Some(dd.clone());
                        }
                    }
                }
                None
            };
            let Some(want) = (if all.ok() { find(&all.out()) } else { None }) else {
                acc.violation(&ctxr.findings, "C07", viol("cli-failure", input, format!("the all-years report does not list the disposal: {}", all.err().chars().take(200).collect::<String>()), Value::Null));
                return acc;
            };
            let legs = |v: &Value| -> Vec<(String, String, String, String)> {
                // money to pence (explain_matching prints full precision, the reports pence; C17 owns the dress)
                let pence = |x: &Value| -> String {
                    use std::str::FromStr;
                    x.as_str().and_then(|t| rust_decimal::Decimal::from_str(t).ok()).map(|d| d.round_dp_with_strategy(2, rust_decimal::RoundingStrategy::MidpointAwayFromZero).normalize().to_string()).unwrap_or_else(|| "?".to_string())
                };
                v["matches"].as_array().cloned().unwrap_or_default().iter().map(|l| (pence(&l["quantity"]), pence(&l["allowable_cost"]), pence(&l["gain_or_loss"]), l["acquisition_date"].as_str().unwrap_or("").to_string())).collect()
            };
            let mut sources: Vec<(&str, Option<Value>)> = vec![("cgt-tool report --year", if one.ok() { find(&one.out()) } else { None })];
            if ok {
                sources.push(("MCP calculate_report with year", tool_text(&m.got["2"][0]).ok().and_then(|t| find(&t))));
                sources.push(("MCP explain_matching", tool_text(&m.got["1"][0]).ok().and_then(|t| serde_json::from_str::<Value>(&t).ok())));
            } else {
                acc.violation(&ctxr.findings, "C07", viol("mcp-no-response", input.clone(), "no response within 15 s".into(), Value::Null));
            }
            for (name, got) in sources {
                match got {
                    None => acc.violation(&ctxr.findings, "C07", viol("slice-differs", input.clone(), format!("{name} does not show the disposal of {ds} that the all-years report lists"), Value::Null)),
                    Some(g) => {
                        if legs(&g) != legs(&want) {
                            acc.violation(&ctxr.findings, "C07", viol("slice-differs", input.clone(), format!("{name} shows legs (quantity, cost, gain, acquisition) {:?}, the all-years report {:?}", legs(&g), legs(&want)), Value::Null));
                        }
                    }
                }
            }
            let _ = m.finish();
            acc
        })
        .reduce(Acc::new, Acc::merge);
    let merged = Acc::merge(std::mem::take(acc), part);
    *acc = merged;
    ctx.require(acc.get("cli:placed") > 0 && acc.get("mcp:explained") > 0, "front-end sweeps produced no positive case");
    ctx.alphabets.push(json!({"name": "frontends", "description": "cgt-tool report --year (own year and neighbouring year) for 5 and 6 April of every year 1900..2101; MCP calculate_report + explain_matching for the same dates and every day 2023-04-01..2024-04-10", "dates": dates.len()}));
}

/// C18: `cgt-tool convert schwab` (stdout and --output) agrees with the library conversion and its output feeds
/// `cgt-tool report`.
pub fn c18_cli(ctx: &mut Ctx, acc: &mut Acc) {
    need_tool();
    use cgt_converter::BrokerConverter;
    use cgt_converter::schwab::{SchwabConverter, SchwabInput};
    let exports = [
        r#"{"BrokerageTransactions":[{"Date":"01/10/2024","Action":"Buy","Symbol":"X","Description":"b","Quantity":"10","Price":"$100.50","Fees & Comm":"$1.00","Amount":""},{"Date":"02/20/2024","Action":"Sell","Symbol":"X","Description":"s","Quantity":"4","Price":"$110","Fees & Comm":"","Amount":""},{"Date":"01/10/2024","Action":"Foo","Symbol":"X","Description":"a\n2024-01-01 BUY EVIL 1 @ 1","Quantity":"","Price":"","Fees & Comm":"","Amount":""}]}"#,
        r#"{"BrokerageTransactions":[{"Date":"01/12/2024","Action":"Stock Plan Activity","Symbol":"X","Description":"r","Quantity":"10","Price":"","Fees & Comm":"","Amount":""},{"Date":"01/10/2024","Action":"Cash Dividend","Symbol":"X","Description":"d","Quantity":"","Price":"","Fees & Comm":"","Amount":"$5.00"},{"Date":"01/10/2024","Action":"NRA Withholding","Symbol":"X","Description":"t","Quantity":"","Price":"","Fees & Comm":"","Amount":"-$0.75"}]}"#,
    ];
    let awards = r#"{"Transactions":[{"Date":"01/14/2024","Action":"Deposit","Symbol":"X","TransactionDetails":[{"Details":{"VestDate":"01/12/2024","VestFairMarketValue":"$99.50"}}]}]}"#;
    let strip = |s: &str| s.lines().filter(|l| !l.starts_with("# Converted:")).collect::<Vec<_>>().join("\n");
    for (i, e) in exports.iter().enumerate() {
        let sc = Scratch::new();
        sc.all_years_config();
        sc.write("tx.json", e.as_bytes());
        sc.write("aw.json", awards.as_bytes());
        let lib = SchwabConverter::new().convert(&SchwabInput { transactions_json: e.to_string(), awards_json: Some(awards.to_string()) });
        let o1 = run_tool(&["convert", "schwab", "tx.json", "--awards", "aw.json"], &sc, T);
        let o2 = run_tool(&["convert", "schwab", "tx.json", "--awards", "aw.json", "--output", "out.cgt"], &sc, T);
        acc.states += 2;
        acc.validated += 2;
        acc.bump("cli:convert");
        let input = json!({"export": serde_json::from_str::<Value>(e).unwrap_or(Value::Null), "case": i});
        let push = |acc: &mut Acc, clause: &str, detail: String| acc.violation(&ctx.findings, "C18", viol(clause, input.clone(), detail, json!({"profile": "cli"})));
        let Ok(lib) = lib else {
            push(acc, "well-formed-export-refused", "library conversion failed".into());
            continue;
        };
        if !o1.ok() || !o2.ok() {
            push(acc, "cli-convert-fails", format!("exit {:?}/{:?}: {}", o1.code, o2.code, o1.err()));
            continue;
        }
        let file = std::fs::read_to_string(sc.path("out.cgt")).unwrap_or_default();
        if strip(o1.out().trim_end()) != strip(&lib.cgt_content) || strip(&file) != strip(&lib.cgt_content) {
            push(acc, "cli-convert-differs", "CLI conversion output differs from the library's".into());
        }
        let r = run_tool(&["report", "out.cgt", "--format", "json"], &sc, T);
        if !r.ok() {
            push(acc, "converted-output-not-reportable", format!("cgt-tool report on the converted file fails: {}", r.err().chars().take(300).collect::<String>()));
        }
    }
}

/// C05 front-ends: an uncovered sale yields no report from `cgt-tool report` (any format, stdout or --output) nor
/// from MCP calculate_report / explain_matching; covered ledgers yield one from all of them.
pub fn c05_frontends(ctx: &mut Ctx, acc: &mut Acc) {
    need_tool();
    let ledgers: Vec<(&str, bool, &str, &str)> = vec![
        ("covered", true, "2023-04-22 BUY X 10 @ 10 FEES 1\n2023-06-01 SELL X 4 @ 20\n", ""),
        ("covered sell-all then rebuy", true, "2023-04-22 BUY X 10 @ 10\n2023-06-01 SELL X 10 @ 20\n2023-06-05 BUY X 10 @ 11\n", ""),
        ("sale without purchase", false, "2023-06-01 SELL X 4 @ 20\n", "2023-06-01"),
        ("oversell", false, "2023-04-22 BUY X 10 @ 10\n2023-06-01 SELL X 11 @ 20\n", "2023-06-01"),
        ("duplicate sale row", false, "2023-04-22 BUY X 10 @ 10\n2023-06-01 SELL X 10 @ 20\n2023-06-01 SELL X 10 @ 20\n", "2023-06-01"),
        ("companion matched forward", false, "2023-04-22 BUY X 10 @ 10\n2023-06-01 SELL X 0.5 @ 20\n2023-06-02 SELL X 10 @ 20\n2023-06-03 BUY X 10 @ 13\n", "2023-06-02"),
        ("repurchase does not legitimise", false, "2023-06-01 SELL X 5 @ 20\n2023-06-10 BUY X 5 @ 10\n", "2023-06-01"),
        ("oversell after unsplit", false, "2023-04-22 BUY X 10 @ 10\n2023-05-01 UNSPLIT X RATIO 2\n2023-06-01 SELL X 6 @ 20\n", "2023-06-01"),
        ("second security uncovered", false, "2023-04-22 BUY A 10 @ 10\n2023-06-01 SELL A 4 @ 20\n2023-06-02 SELL B 1 @ 5\n", "2023-06-02"),
        ("uncovered in a later year", false, "2023-04-22 BUY X 10 @ 10\n2023-06-01 SELL X 4 @ 20\n2025-06-01 SELL X 7 @ 20\n", "2025-06-01"),
        ("uncovered three months after a covered sale", false, "2023-01-10 BUY X 100 @ 10\n2023-03-02 SELL X 40 @ 12\n2023-09-01 SELL X 60 @ 13\n2023-09-01 SELL X 60 @ 13\n", "2023-09-01"),
    ];
    let ctxr: &Ctx = ctx;
    let part = ledgers
        .par_iter()
        .fold(Acc::new, |mut acc, (name, covered, text, date)| {
            let sc = Scratch::new();
            sc.all_years_config();
            sc.write("in.cgt", text.as_bytes());
            let input = json!({"case": name, "ledger": text});
            let push = |acc: &mut Acc, clause: &str, detail: String, cx: Value| acc.violation(&ctxr.findings, "C05", viol(clause, input.clone(), detail, cx));
            for fmt in ["plain", "json", "pdf"] {
                for with_output in [false, true] {
                    let mut args = vec!["report", "in.cgt", "--format", fmt];
                    if with_output {
                        args.extend(["--output", "out.bin"]);
                    }
                    let _ = std::fs::remove_file(sc.path("out.bin"));
                    let _ = std::fs::remove_file(sc.path("in.pdf"));
                    let o = run_tool(&args, &sc, T);
                    acc.states += 1;
                    acc.validated += 1;
                    acc.bump("frontend:cli-runs");
                    let cx = json!({"profile": "front-ends", "args": args, "exit": o.code, "stderr": o.err().chars().take(200).collect::<String>()});
                    if *covered {
                        if !o.ok() {
                            push(&mut acc, "covered-ledger-refused", format!("cgt-tool {} fails on a covered ledger", args.join(" ")), cx);
                        }
                    } else {
                        if o.ok() {
                            push(&mut acc, "uncovered-ledger-accepted", format!("cgt-tool {} exits 0 on an uncovered ledger", args.join(" ")), cx.clone());
                        }
                        if !o.stdout.is_empty() {
                            push(&mut acc, "partial-report-emitted", format!("{} bytes on stdout although the run fails", o.stdout.len()), cx.clone());
                        }
                        if sc.path("out.bin").exists() || sc.path("in.pdf").exists() {
                            push(&mut acc, "partial-report-emitted", "an output file was written although the run fails".into(), cx.clone());
                        }
                        if !o.clean_failure() {
                            push(&mut acc, "panic", "failure is not clean".into(), cx.clone());
                        }
                        if !o.err().contains(date) {
                            push(&mut acc, "error-does-not-name-sale", format!("the error does not name the date {date}"), cx);
                        }
                    }
                }
            }
            // the same ledger spread over several input files: cut after every line, the earlier file ending with or
            // without a final newline, with or without a closing comment line that has no newline of its own
            let lines: Vec<&str> = text.lines().collect();
            for cut in 1..lines.len() {
                for (tail_label, tail) in [("newline", "\n"), ("no-final-newline", ""), ("comment-without-newline", "\n# end of export")] {
                    sc.write("p1.cgt", format!("{}{}", lines[..cut].join("\n"), tail).as_bytes());
                    sc.write("p2.cgt", format!("{}\n", lines[cut..].join("\n")).as_bytes());
                    let args = ["report", "p1.cgt", "p2.cgt", "--format", "json"];
                    let o = run_tool(&args, &sc, T);
                    acc.states += 1;
                    acc.validated += 1;
                    acc.bump("frontend:cli-multi-file-runs");
                    let cx = json!({"profile": "front-ends", "args": args, "cut_after_line": cut, "first_file_ends_with": tail_label, "exit": o.code, "stderr": o.err().chars().take(200).collect::<String>()});
                    if *covered && !o.ok() {
                        push(&mut acc, "covered-ledger-refused", format!("cgt-tool report p1.cgt p2.cgt fails on a covered ledger cut after line {cut} (first file ends with {tail_label})"), cx);
                    } else if !*covered && (o.ok() || !o.stdout.is_empty()) {
                        push(&mut acc, "uncovered-ledger-accepted", format!("cgt-tool report p1.cgt p2.cgt produces a report for an uncovered ledger cut after line {cut} (first file ends with {tail_label})"), cx);
                    } else if !*covered && !o.err().contains(date) {
                        push(&mut acc, "error-does-not-name-sale", format!("the error does not name the date {date}"), cx);
                    }
                }
            }
            let mut m = Mcp::start(&sc);
            m.send_raw(&tool_call(&json!(1), "calculate_report", json!({"transactions": text})));
            m.send_raw(&tool_call(&json!(2), "calculate_report", json!({"transactions": text, "year": 2023})));
            acc.states += 2;
            acc.validated += 2;
            acc.bump("frontend:mcp-requests");
            if !m.wait_for(&["1".into(), "2".into()], Duration::from_secs(15)) {
                push(&mut acc, "mcp-no-response", "calculate_report not answered".into(), json!({"profile": "front-ends"}));
            } else {
                let r1 = tool_text(&m.got["1"][0]);
                if *covered != r1.is_ok() {
                    push(&mut acc, if *covered { "covered-ledger-refused" } else { "uncovered-ledger-accepted" }, format!("MCP calculate_report returns {}", if r1.is_ok() { "a report" } else { "an error" }), json!({"profile": "front-ends"}));
                }
                if let Err(e) = &r1 {
                    if !*covered && !e.contains(date) {
                        push(&mut acc, "error-does-not-name-sale", format!("the MCP error does not name {date}: {}", e.chars().take(200).collect::<String>()), json!({"profile": "front-ends"}));
                    }
                }
                // a year filter never turns an uncovered ledger into a report
                if !*covered && tool_text(&m.got["2"][0]).is_ok() {
                    push(&mut acc, "uncovered-ledger-accepted", "MCP calculate_report with year=2023 returns a report for an uncovered ledger".into(), json!({"profile": "front-ends"}));
                }
            }
            // explain_matching is a front-end too: asked about any sale line of an uncovered ledger it must not answer
            // with a breakdown (a partial report); on a covered ledger it must explain every sale
            let sale_lines: Vec<(String, String)> = text.lines().filter_map(|l| { let t: Vec<&str> = l.split_whitespace().collect(); if t.len() > 2 && t[1] == "SELL" { Some((t[0].to_string(), t[2].to_string())) } else { None } }).collect();
            let mut ids = vec![];
            for (k, (d, tk)) in sale_lines.iter().enumerate() {
                let id = json!(10 + k);
                m.send_raw(&tool_call(&id, "explain_matching", json!({"transactions": text, "disposal_date": d, "ticker": tk})));
                ids.push(id.to_string());
            }
            acc.add("frontend:mcp-explain-requests", ids.len() as u64);
            if !ids.is_empty() {
                if !m.wait_for(&ids, Duration::from_secs(15)) {
                    push(&mut acc, "mcp-no-response", "explain_matching not answered".into(), json!({"profile": "front-ends"}));
                } else {
                    for (id, (d, tk)) in ids.iter().zip(sale_lines.iter()) {
                        let r = tool_text(&m.got[id][0]);
                        if *covered != r.is_ok() {
                            push(&mut acc, if *covered { "covered-ledger-refused" } else { "partial-report-emitted" }, format!("MCP explain_matching for {tk} on {d} returns {}", if r.is_ok() { "a matching breakdown" } else { "an error" }), json!({"profile": "front-ends"}));
                        }
                    }
                }
            }
            let _ = m.finish();
            acc
        })
        .reduce(Acc::new, Acc::merge);
    let merged = Acc::merge(std::mem::take(acc), part);
    *acc = merged;
    ctx.alphabets.push(json!({"name": "front-ends", "description": "11 ledgers (covered and uncovered in different ways) x cgt-tool report {plain,json,pdf} x {stdout, --output} and MCP calculate_report with and without year and explain_matching for every sale line; each ledger also cut into two files after every line", "ledgers": ledgers.iter().map(|l| l.0).collect::<Vec<_>>()}));
}
