//! C13: lexical layout never changes what is parsed. Deviation-bounded exploration of DSL texts around canonical
//! texts (every set of <= k deviations at distinct sites) + every single-token corruption, against the reference
//! recogniser (mcx::refparse).
use crate::preds;
use cgt_core::Transaction;
use cgt_core::parser::parse_file;
use mcx::proc::{ProcOut, Scratch, run_tool};
use mcx::refparse;
use mcx::run::{Acc, Ctx, Input, Tier, Violation, machinery_failure};
use rayon::prelude::*;
use serde_json::{Value, json};
use std::panic::{AssertUnwindSafe, catch_unwind};

/// canonical lines: tokens separated by one space
pub fn base_lines() -> Vec<&'static str> {
    vec![
        "2024-01-15 BUY AAPL 10 @ 150",
        "2024-01-15 BUY AAPL 10 @ 150 USD",
        "2024-01-15 BUY AAPL 10 @ 150 FEES 3",
        "2024-01-15 BUY AAPL 10.5 @ 150.25 USD FEES 3 EUR",
        "2024-01-15 BUY Z9 10 @ 150 GBP FEES 3.5 GBP",
        "2024-02-20 SELL AAPL 4 @ 180",
        "2024-02-20 SELL AAPL 4 @ 180 USD FEES 1.5",
        "2024-02-20 SELL AAPL 4 @ 180 FEES 1.5 USD",
        "2024-03-01 DIVIDEND AAPL TOTAL 30",
        "2024-03-01 DIVIDEND AAPL TOTAL 30 USD",
        "2024-03-01 DIVIDEND AAPL TOTAL 30 TAX 3",
        "2024-03-01 DIVIDEND AAPL TOTAL 30 USD TAX 3 USD",
        "2024-03-05 ACCUMULATION VWRL 10 TOTAL 30",
        "2024-03-05 ACCUMULATION VWRL 10 TOTAL 30 EUR TAX 2",
        "2024-03-07 CAPRETURN VWRL 10 TOTAL 30",
        "2024-03-07 CAPRETURN VWRL 10 TOTAL 30 FEES 1 EUR",
        "2024-04-01 SPLIT AAPL RATIO 2",
        "2024-04-02 UNSPLIT AAPL RATIO 2.5",
    ]
}

fn is_word(tok: &str) -> bool {
    tok.chars().any(|c| c.is_ascii_alphabetic())
}

#[derive(Clone, Debug, PartialEq, Eq, PartialOrd, Ord)]
enum Dev {
    Gap { line: usize, gap: usize, with: &'static str },
    Case { line: usize, tok: usize, mode: u8 },
    LineEnd { line: usize, with: &'static str },
    Sep { line: usize, with: &'static str },
    NoFinalNewline,
    Insert { before: usize, what: &'static str },
}
impl Dev {
    /// two deviations are at the same site (mutually exclusive)
    fn site(&self) -> (u8, usize, usize) {
        match self {
            Dev::Gap { line, gap, .. } => (0, *line, *gap),
            Dev::Case { line, tok, .. } => (1, *line, *tok),
            Dev::LineEnd { line, .. } => (2, *line, 0),
            Dev::Sep { line, .. } => (3, *line, 0),
            Dev::NoFinalNewline => (4, 0, 0),
            Dev::Insert { before, .. } => (5, *before, 0),
        }
    }
}

fn mixed(tok: &str, mode: u8) -> String {
    match mode {
        0 => tok.to_ascii_lowercase(),
        _ => tok.chars().enumerate().map(|(i, c)| if i % 2 == 0 { c.to_ascii_lowercase() } else { c.to_ascii_uppercase() }).collect(),
    }
}

fn deviations(lines: &[Vec<&str>]) -> Vec<Dev> {
    let mut v = vec![];
    for (li, toks) in lines.iter().enumerate() {
        for g in 0..toks.len().saturating_sub(1) {
            for w in ["  ", "\t", " \t "] {
                v.push(Dev::Gap { line: li, gap: g, with: w });
            }
        }
        for (ti, t) in toks.iter().enumerate() {
            if ti > 0 && is_word(t) {
                v.push(Dev::Case { line: li, tok: ti, mode: 0 });
                if t.len() > 1 {
                    v.push(Dev::Case { line: li, tok: ti, mode: 1 });
                }
            }
        }
        for w in ["  ", "\t", " # c", "#c", " # BUY X 1 @ 1", " #"] {
            v.push(Dev::LineEnd { line: li, with: w });
        }
        for w in ["\r\n", "\r"] {
            v.push(Dev::Sep { line: li, with: w });
        }
    }
    v.push(Dev::NoFinalNewline);
    for b in 0..=lines.len() {
        for w in ["", "   ", "\t", "# full-line comment", "#", "# 2024-01-01 BUY Q 1 @ 1"] {
            v.push(Dev::Insert { before: b, what: w });
        }
    }
    v
}

fn render(lines: &[Vec<&str>], devs: &[&Dev]) -> String {
    let mut out = String::new();
    let n = lines.len();
    let sep_default = "\n";
    let emit_inserts = |out: &mut String, b: usize| {
        for d in devs {
            if let Dev::Insert { before, what } = d {
                if *before == b {
                    out.push_str(what);
                    out.push_str(sep_default);
                }
            }
        }
    };
    for (li, toks) in lines.iter().enumerate() {
        emit_inserts(&mut out, li);
        for (ti, t) in toks.iter().enumerate() {
            let mut tok = t.to_string();
            for d in devs {
                if let Dev::Case { line, tok: tt, mode } = d {
                    if *line == li && *tt == ti {
                        tok = mixed(t, *mode);
                    }
                }
            }
            out.push_str(&tok);
            if ti + 1 < toks.len() {
                let mut gap = " ";
                for d in devs {
                    if let Dev::Gap { line, gap: g, with } = d {
                        if *line == li && *g == ti {
                            gap = with;
                        }
                    }
                }
                out.push_str(gap);
            }
        }
        for d in devs {
            if let Dev::LineEnd { line, with } = d {
                if *line == li {
                    out.push_str(with);
                }
            }
        }
        let mut sep = sep_default;
        for d in devs {
            if let Dev::Sep { line, with } = d {
                if *line == li {
                    sep = with;
                }
            }
        }
        let last = li + 1 == n;
        let trailing_insert = devs.iter().any(|d| matches!(d, Dev::Insert { before, .. } if *before == n));
        let no_final = devs.iter().any(|d| matches!(d, Dev::NoFinalNewline));
        if !last || trailing_insert || !no_final {
            out.push_str(sep);
        }
    }
    // inserts after the last line
    let no_final = devs.iter().any(|d| matches!(d, Dev::NoFinalNewline));
    let tail: Vec<&&Dev> = devs.iter().filter(|d| matches!(d, Dev::Insert { before, .. } if *before == n)).collect();
    for (i, d) in tail.iter().enumerate() {
        if let Dev::Insert { what, .. } = d {
            out.push_str(what);
            if !(no_final && i + 1 == tail.len()) {
                out.push_str(sep_default);
            }
        }
    }
    out
}

pub fn tool_parse(text: &str) -> Result<Vec<Transaction>, String> {
    match catch_unwind(AssertUnwindSafe(|| parse_file(text))) {
        Ok(Ok(t)) => Ok(t),
        Ok(Err(e)) => Err(e.to_string()),
        Err(p) => Err(format!("PANIC: {}", mcx::observe::panic_msg(p))),
    }
}

/// line number reported by a pest error text (" --> L:C")
pub fn reported_line(err: &str) -> Option<usize> {
    let i = err.find("-->")?;
    let rest = err[i + 3..].trim_start();
    let num: String = rest.chars().take_while(|c| c.is_ascii_digit()).collect();
    num.parse().ok()
}

fn subsets_upto(n: usize, k: usize, f: &mut dyn FnMut(&[usize])) {
    fn rec(start: usize, n: usize, k: usize, cur: &mut Vec<usize>, f: &mut dyn FnMut(&[usize])) {
        f(cur);
        if cur.len() == k {
            return;
        }
        for i in start..n {
            cur.push(i);
            rec(i + 1, n, k, cur, f);
            cur.pop();
        }
    }
    rec(0, n, k, &mut vec![], f);
}

fn explore_base(ctx: &Ctx, acc: &mut Acc, lines: &[Vec<&str>], k: usize, label: &str) {
    let canon = render(lines, &[]);
    let expected = match refparse::parse(&canon) {
        Ok(t) => t,
        Err(e) => machinery_failure(&format!("canonical text rejected by the reference recogniser: {e:?}\n{canon}")),
    };
    if expected.len() != lines.len() {
        machinery_failure("canonical text: transaction count mismatch");
    }
    let devs = deviations(lines);
    let mut local = 0u64;
    subsets_upto(devs.len(), k, &mut |idx: &[usize]| {
        // distinct sites only
        for a in 0..idx.len() {
            for b in a + 1..idx.len() {
                if devs[idx[a]].site() == devs[idx[b]].site() {
                    return;
                }
            }
        }
        let chosen: Vec<&Dev> = idx.iter().map(|&i| &devs[i]).collect();
        let text = render(lines, &chosen);
        local += 1;
        acc.states += 1;
        acc.validated += 1;
        acc.bump(&format!("deviations:{}", idx.len()));
        for d in &chosen {
            match d {
                Dev::LineEnd { with, .. } if with.contains('#') => acc.bump("shape:trailing-comment"),
                Dev::Sep { with, .. } if *with == "\r" => acc.bump("shape:CR-only-separator"),
                Dev::Sep { .. } => acc.bump("shape:CRLF-separator"),
                Dev::NoFinalNewline => acc.bump("shape:no-final-newline"),
                Dev::Case { .. } => acc.bump("shape:case-variation"),
                Dev::Gap { .. } => acc.bump("shape:gap-variation"),
                Dev::Insert { .. } => acc.bump("shape:blank-or-comment-line-inserted"),
                _ => {}
            }
        }
        // the reference recogniser must itself agree (guards the deviation generator)
        match refparse::parse(&text) {
            Ok(t) if t == expected => {}
            other => machinery_failure(&format!("deviation generator/recogniser inconsistency on {text:?}: {other:?}")),
        }
        acc.sample(idx.len(), || json!({"base": label, "text": text}));
        match tool_parse(&text) {
            Ok(t) => {
                if t != expected {
                    acc.violation(&ctx.findings, "C13", Violation { clause: "layout-changes-parse".into(), input: Input::Text(text.clone()), detail: format!("parsed {:?} expected {:?}", t, expected), context: json!({"deviations": format!("{chosen:?}"), "profile": label}) });
                }
            }
            Err(e) => {
                let clause = if e.starts_with("PANIC") { "panic" } else { "valid-text-rejected" };
                acc.violation(&ctx.findings, "C13", Violation { clause: clause.into(), input: Input::Text(text.clone()), detail: e.chars().take(300).collect(), context: json!({"deviations": format!("{chosen:?}"), "profile": label}) });
            }
        }
    });
    let _ = local;
}

// garbage, and every token class of the grammar in the wrong place (each command and clause keyword in two cases, the
// price sign, currency codes, a number, a date): a keyword swapped for another keyword must not be silently accepted
const REPLACEMENTS: [&str; 31] = [
    "?", "1.2.3", "-5", "abc", "2024-13-01", "2024-02-30", "BUYY", "ZZZ", "BUY", "SELL", "DIVIDEND", "CAPRETURN", "ACCUMULATION", "SPLIT", "UNSPLIT", "FEES", "TAX", "TOTAL", "RATIO", "fees", "tax",
    "Total", "ratio", "sell", "@", "GBP", "USD", "eur", "7", "0.5", "2024-03-01",
];

fn corruptions(ctx: &Ctx, acc: &mut Acc, lines: &[Vec<&str>], which: usize, seps: &[&str], label: &str) {
    // corrupt one token of line `which`
    let toks = &lines[which];
    let mut variants: Vec<(String, Vec<String>)> = vec![];
    for i in 0..toks.len() {
        let t: Vec<String> = toks.iter().map(|s| s.to_string()).collect();
        let mut v = t.clone();
        v.remove(i);
        variants.push((format!("delete token {i}"), v));
        let mut v = t.clone();
        v.insert(i, t[i].clone());
        variants.push((format!("duplicate token {i}"), v));
        if i + 1 < toks.len() {
            let mut v = t.clone();
            v.swap(i, i + 1);
            variants.push((format!("swap tokens {i},{}", i + 1), v));
        }
        for r in REPLACEMENTS {
            if t[i] != r {
                let mut v = t.clone();
                v[i] = r.to_string();
                variants.push((format!("replace token {i} by {r}"), v));
            }
        }
        if i > 0 {
            let mut v = t.clone();
            v.insert(i, "#".to_string());
            variants.push((format!("# inserted before token {i}"), v));
        }
    }
    // lines that carry no transaction, placed before the first line (the reported line number must still be the
    // line's position in the text as given)
    const PROLOGUES: [&str; 6] = ["", "\n", "\n\n", "   \n", "# c\n", "\t\n# c\n"];
    for sep in seps {
      for prologue in PROLOGUES {
        for (what, v) in &variants {
            let mut text = prologue.replace('\n', sep);
            if !prologue.is_empty() {
                acc.bump("corruption:after-leading-blank-or-comment-lines");
            }
            for (li, l) in lines.iter().enumerate() {
                if li == which {
                    text.push_str(&v.join(" "));
                } else {
                    text.push_str(&l.join(" "));
                }
                text.push_str(sep);
            }
            acc.states += 1;
            acc.validated += 1;
            acc.bump("corruptions");
            let exp = refparse::parse(&text);
            let got = tool_parse(&text);
            let cx = json!({"corruption": what, "line": which + 1, "separator": sep, "prologue": prologue, "profile": label, "variant": if *sep == "\r" { "CR-only separators" } else { "corruption" }});
            match (&exp, &got) {
                (Ok(e), Ok(g)) => {
                    acc.bump("corruption:still-valid");
                    if e != g {
                        acc.violation(&ctx.findings, "C13", Violation { clause: "corruption-misparsed".into(), input: Input::Text(text.clone()), detail: format!("parsed {g:?} expected {e:?}"), context: cx });
                    }
                }
                (Err(e), Err(g)) => {
                    acc.bump("corruption:rejected");
                    if g.starts_with("PANIC") {
                        acc.violation(&ctx.findings, "C13", Violation { clause: "panic".into(), input: Input::Text(text.clone()), detail: g.clone(), context: cx });
                    } else if reported_line(g) != Some(e.line) {
                        acc.violation(&ctx.findings, "C13", Violation { clause: "error-line".into(), input: Input::Text(text.clone()), detail: format!("offending line is {} ({}), the error reports {:?}: {}", e.line, e.why, reported_line(g), g.chars().take(200).collect::<String>()), context: cx });
                    }
                }
                (Err(e), Ok(g)) => {
                    let clause = if g.len() < lines.len() { "invalid-text-silently-skipped" } else { "invalid-text-accepted" };
                    acc.violation(&ctx.findings, "C13", Violation { clause: clause.into(), input: Input::Text(text.clone()), detail: format!("line {} is invalid ({}), yet parse_file returns {} transactions", e.line, e.why, g.len()), context: cx });
                }
                (Ok(_), Err(g)) => {
                    acc.violation(&ctx.findings, "C13", Violation { clause: "valid-text-rejected".into(), input: Input::Text(text.clone()), detail: g.chars().take(300).collect(), context: cx });
                }
            }
        }
      }
    }
}

pub fn c13(tier: Tier) -> i32 {
    let mut ctx = Ctx::new("C13", tier, preds::all());
    let bases = base_lines();
    let (k1, k3) = match tier {
        Tier::Quick => (4, 3),
        Tier::Thorough => (5, 3),
    };
    // one-line bases at k1 deviations; 3-line files at k3
    let mut jobs: Vec<(Vec<Vec<&str>>, usize, String)> = vec![];
    for b in &bases {
        jobs.push((vec![b.split(' ').collect()], k1, b.to_string()));
    }
    let tri = [(0usize, 5usize, 8usize), (3, 7, 11), (12, 15, 16), (1, 13, 17), (4, 6, 9)];
    for (a, b, c) in tri {
        jobs.push((vec![bases[a].split(' ').collect(), bases[b].split(' ').collect(), bases[c].split(' ').collect()], k3, format!("3-line file {a},{b},{c}")));
    }
    let ctxr: &Ctx = &ctx;
    let mut acc = jobs
        .par_iter()
        .fold(Acc::new, |mut acc, (lines, k, label)| {
            explore_base(ctxr, &mut acc, lines, *k, label);
            acc
        })
        .reduce(Acc::new, Acc::merge);
    eprintln!("  [C13] deviation exploration: {} texts", acc.states);
    // corruptions: one-line files and line 2 of 3-line files, LF / CRLF / CR separators
    let cjobs: Vec<(Vec<Vec<&str>>, usize, String)> = bases
        .iter()
        .map(|b| (vec![b.split(' ').collect()], 0usize, format!("1-line {b}")))
        .chain(tri.iter().flat_map(|(a, b, c)| {
            let l: Vec<Vec<&str>> = vec![bases[*a].split(' ').collect(), bases[*b].split(' ').collect(), bases[*c].split(' ').collect()];
            (0..3).map(move |w| (l.clone(), w, format!("3-line file {a},{b},{c} line {}", w + 1)))
        }))
        .collect();
    let cacc = cjobs
        .par_iter()
        .fold(Acc::new, |mut acc, (lines, which, label)| {
            corruptions(ctxr, &mut acc, lines, *which, &["\n", "\r\n", "\r"], label);
            acc
        })
        .reduce(Acc::new, Acc::merge);
    eprintln!("  [C13] corruptions: {} texts", cacc.states);
    acc = Acc::merge(acc, cacc);
    // the CLI front-end (`cgt-tool parse`) on the canonical file and three deviated files
    crate::cli::need_tool();
    let sc = Scratch::new();
    let canon: String = bases.iter().map(|b| format!("{b}\n")).collect();
    let variants = [
        canon.clone(),
        canon.replace('\n', "\r\n"),
        canon.replace(' ', " \t").to_lowercase().replace('\n', "\n\n# c\n"),
        canon.trim_end().to_string(),
    ];
    let mut outs = vec![];
    for (i, v) in variants.iter().enumerate() {
        sc.write(&format!("v{i}.cgt"), v.as_bytes());
        let o = run_tool(&["parse", &format!("v{i}.cgt")], &sc, crate::cli::T);
        acc.states += 1;
        acc.validated += 1;
        acc.bump("cli:parse");
        outs.push(o);
    }
    for (i, o) in outs.iter().enumerate() {
        if !o.ok() || o.stdout != outs[0].stdout {
            acc.violation(&ctx.findings, "C13", Violation { clause: "cli-parse-differs".into(), input: Input::Text(variants[i].clone()), detail: format!("cgt-tool parse exit {:?}; output differs from the canonical file's; stderr {}", o.code, o.err().chars().take(200).collect::<String>()), context: Value::Null });
        }
    }
    // the CLI with SEVERAL input files: every cut of a 3-line file into 2 or 3 files, every non-last file ending in
    // {LF, nothing, a comment without newline, CRLF, CR, a blank line and a comment}: `parse` must print what it prints
    // for the single file; and a corrupted line in the last file must fail the whole run (nothing silently skipped)
    {
        let endings = ["\n", "", " # c", "\r\n", "\r", "\n\n# c"];
        let cuts: [&[&[usize]]; 3] = [&[&[0], &[1, 2]], &[&[0, 1], &[2]], &[&[0], &[1], &[2]]];
        let mut cells: Vec<(String, Vec<String>, bool)> = vec![]; // (single-file text, file contents, last line corrupted)
        for (a, b, c) in tri {
            let l = [bases[a], bases[b], bases[c]];
            for cut in cuts {
                for e in endings {
                    for corrupt in [false, true] {
                        let line = |i: usize| if corrupt && i == 2 { l[i].replacen(' ', " BUYY ", 1) } else { l[i].to_string() };
                        let files: Vec<String> = cut.iter().enumerate().map(|(fi, idx)| {
                            let body: Vec<String> = idx.iter().map(|i| line(*i)).collect();
                            format!("{}{}", body.join("\n"), if fi + 1 == cut.len() { "\n" } else { e })
                        }).collect();
                        cells.push((format!("{}\n{}\n{}\n", l[0], l[1], l[2]), files, corrupt));
                    }
                }
            }
        }
        let results: Vec<(ProcOut, ProcOut)> = cells.par_iter().map(|(single, files, _)| {
            let sc = Scratch::new();
            sc.write("single.cgt", single.as_bytes());
            let mut args = vec!["parse".to_string()];
            for (i, f) in files.iter().enumerate() {
                sc.write(&format!("f{i}.cgt"), f.as_bytes());
                args.push(format!("f{i}.cgt"));
            }
            let argv: Vec<&str> = args.iter().map(|s| s.as_str()).collect();
            (run_tool(&["parse", "single.cgt"], &sc, crate::cli::T), run_tool(&argv, &sc, crate::cli::T))
        }).collect();
        for ((single, files, corrupt), (one, many)) in cells.iter().zip(results.iter()) {
            acc.states += 1;
            acc.validated += 1;
            acc.bump("cli:multi-file-parse");
            let input = Input::Text(files.iter().enumerate().map(|(i, f)| format!("--- file {i} ---\n{f}")).collect::<String>());
            let cx = json!({"profile": "cli multi-file", "files": files, "single_file": single});
            if *corrupt {
                acc.bump("cli:multi-file-parse-with-invalid-line");
                if many.ok() || !many.stdout.is_empty() {
                    acc.violation(&ctx.findings, "C13", Violation { clause: "invalid-text-silently-skipped".into(), input, detail: format!("the last file holds an invalid line, yet `cgt-tool parse` over {} files exits {:?} and prints {} bytes", files.len(), many.code, many.stdout.len()), context: cx });
                }
            } else if !one.ok() || !many.ok() || one.stdout != many.stdout {
                acc.violation(&ctx.findings, "C13", Violation { clause: "cli-parse-differs".into(), input, detail: format!("`cgt-tool parse` over {} files (exit {:?}) does not print what it prints for the single file (exit {:?}); stderr {}", files.len(), many.code, one.code, many.err().chars().take(200).collect::<String>()), context: cx });
            }
        }
        ctx.require(acc.get("cli:multi-file-parse") > 0, "no multi-file cell");
    }
    // the MCP front-end: corrupted texts after leading blank / comment lines, LF and CRLF: parse_transactions and
    // calculate_report must refuse them and identify the offending line of the text as it was sent
    {
        const PROLOGUES: [&str; 6] = ["", "\n", "\n\n", "   \n", "# c\n", "\t\n# c\n"];
        let sc = Scratch::new();
        sc.all_years_config();
        let mut m = mcx::proc::Mcp::start(&sc);
        let mut sent: Vec<(String, String, usize, &str)> = vec![];
        let mut n = 0usize;
        for (a, b, c) in tri {
            let l = [bases[a], bases[b], bases[c]];
            for which in 0..3 {
                for (what, from, to) in [("keyword replaced by BUYY", 1usize, "BUYY"), ("date replaced by 2024-13-01", 0, "2024-13-01"), ("ticker replaced by ?", 2, "?")] {
                    for sep in ["\n", "\r\n"] {
                        for prologue in PROLOGUES {
                            let mut text = prologue.replace('\n', sep);
                            for (i, line) in l.iter().enumerate() {
                                if i == which {
                                    let mut t: Vec<&str> = line.split(' ').collect();
                                    t[from] = to;
                                    text.push_str(&t.join(" "));
                                } else {
                                    text.push_str(line);
                                }
                                text.push_str(sep);
                            }
                            let Err(e) = refparse::parse(&text) else { continue };
                            for tool in ["parse_transactions", "calculate_report"] {
                                n += 1;
                                let id = format!("q{n}");
                                m.send_raw(&mcx::proc::tool_call(&json!(id), tool, json!({"transactions": text})));
                                sent.push((format!("\"{id}\""), text.clone(), e.line, tool));
                                let _ = what;
                            }
                        }
                    }
                }
            }
        }
        let ids: Vec<String> = sent.iter().map(|s| s.0.clone()).collect();
        let all = m.wait_for(&ids, std::time::Duration::from_secs(60));
        let (_, got, _) = m.finish();
        for (id, text, line, tool) in &sent {
            acc.states += 1;
            acc.validated += 1;
            acc.bump("mcp:corrupted-texts");
            let cx = json!({"profile": "mcp corruptions", "tool": tool, "variant": tool});
            match got.get(id).and_then(|v| v.first()) {
                None => acc.violation(&ctx.findings, "C13", Violation { clause: "mcp-no-answer".into(), input: Input::Text(text.clone()), detail: format!("{tool} got no response (all answered: {all})"), context: cx }),
                Some(resp) => match mcx::proc::tool_text(resp) {
                    Ok(t) => acc.violation(&ctx.findings, "C13", Violation { clause: "invalid-text-accepted".into(), input: Input::Text(text.clone()), detail: format!("line {line} is invalid, yet MCP {tool} answers with a result: {}", t.chars().take(120).collect::<String>()), context: cx }),
                    Err(msg) => {
                        if reported_line(&msg) != Some(*line) {
                            acc.violation(&ctx.findings, "C13", Violation { clause: "error-line".into(), input: Input::Text(text.clone()), detail: format!("offending line is {line}, MCP {tool} reports {:?}: {}", reported_line(&msg), msg.chars().take(160).collect::<String>()), context: cx });
                        }
                    }
                },
            }
        }
        ctx.require(acc.get("mcp:corrupted-texts") > 100, "MCP corruption sweep did not run");
    }
    for k in ["shape:trailing-comment", "shape:CR-only-separator", "shape:CRLF-separator", "shape:no-final-newline", "shape:case-variation", "shape:gap-variation", "shape:blank-or-comment-line-inserted", "corruption:still-valid", "corruption:rejected"] {
        ctx.require(acc.get(k) > 0, &format!("no text exhibited {k}"));
    }
    ctx.bound = json!({"one_line_bases": bases.len(), "max_deviations_one_line": k1, "three_line_files": tri.len(), "max_deviations_three_line": k3});
    ctx.alphabets.push(json!({"name": "lexical deviations", "bases": bases, "deviation_menu": "gap in {two spaces, tab, space-tab-space} at every token gap; lower/mixed case of every keyword, currency code and ticker; line end in {spaces, tab, ' # c', '#c', ' # BUY X 1 @ 1', ' #'}; separator after each line in {LF, CRLF, CR}; final newline absent; blank / whitespace-only / comment line inserted at every line boundary", "corruptions": "delete / duplicate / swap-with-neighbour / replace by {?, 1.2.3, -5, abc, 2024-13-01, 2024-02-30, BUYY, ZZZ, every command and clause keyword (upper and other case), @, GBP, USD, eur, 7, 0.5, a valid date} / '#' inserted before, for every token, with LF, CRLF and CR separators, after each of 6 prologues (nothing, one or two blank lines, a whitespace-only line, a comment line, both)"}));
    ctx.explanation = "States are DSL texts. From each canonical text every set of at most k deviations at distinct sites is applied (deviation-bounded exhaustive search, like a preemption bound) and the real parse_file must return exactly the canonical transaction list (computed by an independent whitespace-tokenising recogniser of the README grammar: omitted currency = GBP, omitted FEES/TAX = 0). Every single-token corruption of every token is classified by the recogniser: valid ones must parse to the recogniser's value, invalid ones must be rejected with an error reporting the corrupted line, never fewer transactions than lines. Front-ends: `cgt-tool parse` on deviated files and on every cut of the 3-line files into 2-3 input files with six endings of the non-last files (same output as the single file; an invalid line in the last file fails the run); MCP parse_transactions / calculate_report on corrupted texts after six prologues, LF and CRLF (refused, offending line identified as sent).".into();
    ctx.assumptions = vec!["leading indentation, form feeds and non-breaking spaces are outside the statement".into()];
    ctx.finish(&acc, "model_checking")
}
