//! mc-front: engines that need the verification hooks (feature `verif-hooks` of cgt-core and cgt-formatter-pdf).
//! Usage: mc-front <C16|C17> <quick|thorough>
mod order;
mod show;

use mcx::run::{Tier, machinery_failure};

pub fn preds() -> std::collections::BTreeMap<String, mcx::run::Predicate> {
    let mut m: std::collections::BTreeMap<String, mcx::run::Predicate> = std::collections::BTreeMap::new();
    fn never(_i: &mcx::run::Input, _c: &serde_json::Value) -> bool {
        false
    }
    m.insert("never".into(), never as mcx::run::Predicate);
    m
}

fn main() {
    let args: Vec<String> = std::env::args().collect();
    if args.len() < 3 {
        eprintln!("usage: mc-front <PROPERTY> <quick|thorough>");
        std::process::exit(2);
    }
    mcx::observe::quiet_panics();
    if args[1] == "dump-pdf" {
        let text = std::fs::read_to_string(&args[2]).unwrap_or_default();
        let txs = mcx::refparse::parse(&text).unwrap_or_default();
        let fx = cgt_money::load_default_cache().ok();
        let rep = cgt_core::calculator::calculate(&txs, None, fx.as_ref(), &mcx::observe::all_years_config());
        match rep {
            Ok(r) => {
                for (p, x, y, t) in cgt_formatter_pdf::verif_text_runs(&r).unwrap_or_default() {
                    println!("{p} {x:8.2} {y:8.2} {t:?}");
                }
            }
            Err(e) => println!("error {e}"),
        }
        return;
    }
    let tier = match args[2].as_str() {
        "quick" => Tier::Quick,
        "thorough" => Tier::Thorough,
        "--replay" => {
            println!("replay: re-run `./check {} quick`; the replay file records the ledger and the schedule prefix", args[1]);
            std::process::exit(0);
        }
        other => machinery_failure(&format!("unknown tier {other}")),
    };
    let code = match args[1].as_str() {
        "C16" => order::c16(tier),
        "C17" => show::c17(tier),
        other => machinery_failure(&format!("mc-front has no engine for {other}")),
    };
    std::process::exit(code);
}
