//! mc-front: engines that need the verification hooks (feature `verif-hooks` of cgt-core and cgt-formatter-pdf).
//! Usage: mc-front <C16|C17> <quick|thorough>
mod order;

use mcx::run::{Tier, machinery_failure};

fn main() {
    let args: Vec<String> = std::env::args().collect();
    if args.len() < 3 {
        eprintln!("usage: mc-front <PROPERTY> <quick|thorough>");
        std::process::exit(2);
    }
    mcx::observe::quiet_panics();
    let tier = match args[2].as_str() {
        "quick" => Tier::Quick,
        "thorough" => Tier::Thorough,
        "--replay" => {
            println!("replay: re-run `./check {} quick`; the replay file records the ledger and the schedule prefix", args[1]);
            std::process::exit(0);
        }
        other => machinery_failure(&format!("unknown tier {other}")),
    };
    let code = match args[1].as_str() {
        "C16" => order::c16(tier),
        other => machinery_failure(&format!("mc-front has no engine for {other}")),
    };
    std::process::exit(code);
}
