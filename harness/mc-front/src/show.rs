//! C17: text, JSON, PDF and MCP front-ends present the same figures. Half-penny lattice of results x magnitudes,
//! every figure parsed back from every front-end and compared with the full-precision value of the report.
use cgt_core::{Config, MatchRule, TaxReport, Transaction};
use chrono::NaiveDate;
use mcx::alpha::{self, dec, dsl_text};
use mcx::observe::all_years_config;
use mcx::proc::{Mcp, Scratch, run_tool, tool_call, tool_text};
use mcx::rat::Rat;
use mcx::run::{Acc, Ctx, Input, Tier, Violation, machinery_failure};
use num_bigint::BigInt;
use rayon::prelude::*;
use rust_decimal::Decimal;
use serde_json::{Value, json};
use std::collections::BTreeMap;
use std::str::FromStr;

// ---------------------------------------------------------------------------------------- expected dress
fn group(int: &str) -> String {
    let b: Vec<char> = int.chars().collect();
    let mut s = String::new();
    for (i, c) in b.iter().enumerate() {
        if i > 0 && (b.len() - i) % 3 == 0 {
            s.push(',');
        }
        s.push(*c);
    }
    s
}
/// pence value rounded half away from zero
fn pence(v: &Rat) -> BigInt {
    v.round_half_away_scaled(2)
}
/// "£1,234.50" / "-£0.01" from a pence count
fn money_str(p: &BigInt) -> String {
    let neg = p < &BigInt::from(0);
    let a = if neg { -p.clone() } else { p.clone() };
    let s = a.to_string();
    let s = if s.len() < 3 { format!("{}{}", "0".repeat(3 - s.len()), s) } else { s };
    let (i, f) = s.split_at(s.len() - 2);
    format!("{}£{}.{}", if neg { "-" } else { "" }, group(i), f)
}
fn r(d: Decimal) -> Rat {
    Rat::from_dec(d)
}

/// A money token as shown: Ok(exact decimal value) with the information whether it is in strict "£1,234.50" dress
fn parse_money(tok: &str) -> Option<(Decimal, bool)> {
    let t = tok.replace('\u{2212}', "-");
    let (neg, rest) = match t.strip_prefix('-') {
        Some(r) => (true, r.to_string()),
        None => (false, t.clone()),
    };
    let rest = rest.strip_prefix('£')?;
    let strict = {
        let mut parts = rest.split('.');
        let i = parts.next().unwrap_or("");
        let f = parts.next();
        let groups: Vec<&str> = i.split(',').collect();
        let ok_int = !groups.is_empty() && groups[0].len() >= 1 && groups[0].len() <= 3 && groups.iter().skip(1).all(|g| g.len() == 3) && groups.iter().all(|g| g.chars().all(|c| c.is_ascii_digit())) && (groups.len() == 1 || !groups[0].starts_with('0') || groups[0] == "0");
        ok_int && f.map(|f| f.len() == 2 && f.chars().all(|c| c.is_ascii_digit())).unwrap_or(false) && parts.next().is_none()
    };
    let v = Decimal::from_str(&rest.replace(',', "")).ok()?;
    Some((if neg { -v } else { v }, strict))
}

/// shown value must equal the full value or the value rounded to pence half away from zero
fn shown_ok(shown: Decimal, full: &Rat) -> bool {
    let s = r(shown);
    // "in full": the value itself, within the decimal-equality tolerance of DESIGN §2.1 (derived figures such as a
    // unit price are quotients carried to 28 digits)
    if &s == full || s.close(full) {
        return true;
    }
    // compare in pence
    let p = pence(full);
    s == Rat::new(p, BigInt::from(100))
}

fn money_tokens(line: &str) -> Vec<String> {
    let norm = line.replace('\u{2212}', "-");
    let mut out = vec![];
    let chars: Vec<char> = norm.chars().collect();
    let mut i = 0;
    while i < chars.len() {
        let start = i;
        let mut j = i;
        if chars[j] == '-' && j + 1 < chars.len() && chars[j + 1] == '£' {
            j += 1;
        }
        if chars[j] == '£' {
            let mut k = j + 1;
            while k < chars.len() && (chars[k].is_ascii_digit() || chars[k] == ',' || chars[k] == '.') {
                k += 1;
            }
            let tok: String = chars[start..k].iter().collect();
            out.push(tok.trim_end_matches(['.', ',']).to_string());
            i = k;
        } else {
            i += 1;
        }
    }
    out
}

fn ddmmyyyy(d: NaiveDate) -> String {
    d.format("%d/%m/%Y").to_string()
}
fn tax_year_label(y: u16) -> String {
    format!("{}/{:02}", y, (y + 1) % 100)
}
fn trimmed(d: Decimal) -> String {
    let s = d.to_string();
    if s.contains('.') { s.trim_end_matches('0').trim_end_matches('.').to_string() } else { s }
}
/// quantity to six decimals (half away), trailing zeros trimmed — the PDF's stated dress
fn qty6(d: Decimal) -> String {
    let p = r(d).round_half_away_scaled(6);
    let neg = p < BigInt::from(0);
    let a = if neg { -p } else { p };
    let s = a.to_string();
    let s = if s.len() < 7 { format!("{}{}", "0".repeat(7 - s.len()), s) } else { s };
    let (i, f) = s.split_at(s.len() - 6);
    let f = f.trim_end_matches('0');
    format!("{}{}{}", if neg { "-" } else { "" }, i, if f.is_empty() { String::new() } else { format!(".{f}") })
}

// ---------------------------------------------------------------------------------------- the facts of a report
struct DisposalFacts {
    date: NaiveDate,
    ticker: String,
    qty: Decimal,
    gross: Rat,
    net: Rat,
    fees: Rat,
    cost: Rat,
    gain: Rat,
    legs: Vec<(MatchRule, Decimal, Option<NaiveDate>, Rat, Rat)>,
}
struct YearFacts {
    year: u16,
    count: usize,
    net: Rat,
    gain: Rat,
    loss: Rat,
    proceeds: Rat,
    exempt: Rat,
    taxable: Rat,
    disposals: Vec<DisposalFacts>,
}
fn facts(rep: &TaxReport) -> Vec<YearFacts> {
    rep.tax_years
        .iter()
        .map(|y| YearFacts {
            year: y.period.start_year(),
            count: y.disposals.len(),
            net: r(y.net_gain),
            gain: r(y.total_gain),
            loss: r(y.total_loss),
            proceeds: y.disposals.iter().map(|d| r(d.gross_proceeds)).sum(),
            exempt: r(y.exempt_amount),
            taxable: (r(y.net_gain) - r(y.exempt_amount)).max(Rat::zero()),
            disposals: y
                .disposals
                .iter()
                .map(|d| DisposalFacts {
                    date: d.date,
                    ticker: d.ticker.clone(),
                    qty: d.quantity,
                    gross: r(d.gross_proceeds),
                    net: r(d.proceeds),
                    fees: r(d.gross_proceeds) - r(d.proceeds),
                    cost: d.matches.iter().map(|m| r(m.allowable_cost)).sum(),
                    gain: d.matches.iter().map(|m| r(m.gain_or_loss)).sum(),
                    legs: d.matches.iter().map(|m| (m.rule.clone(), m.quantity, m.acquisition_date, r(m.allowable_cost), r(m.gain_or_loss))).collect(),
                })
                .collect(),
        })
        .collect()
}

type Problems = Vec<(&'static str, String)>;

fn expect_money(p: &mut Problems, clause: &'static str, what: &str, tok: Option<&String>, full: &Rat, strict_dress: bool) {
    let Some(tok) = tok else {
        p.push((clause, format!("{what}: figure not shown")));
        return;
    };
    match parse_money(tok) {
        None => p.push((clause, format!("{what}: '{tok}' is not a £ figure"))),
        Some((v, strict)) => {
            let zero_neg = tok.replace('\u{2212}', "-").starts_with('-') && v.is_zero();
            if !shown_ok(v, full) {
                p.push((clause, format!("{what}: shown {tok}, computed value {} (to pence, midpoint away from zero: {})", full, money_str(&pence(full)))));
            } else if strict_dress && !strict {
                p.push((clause, format!("{what}: '{tok}' is not in £1,234.56 dress")));
            } else if zero_neg {
                // "-£0.00": tolerated (a negative value that rounds to zero)
            }
        }
    }
}

// ---------------------------------------------------------------------------------------- plain text
fn check_plain(rep: &TaxReport, plain: &str) -> Problems {
    let mut p: Problems = vec![];
    let f = facts(rep);
    let lines: Vec<&str> = plain.lines().collect();
    // summary rows
    // a summary row: "YYYY/YY  count  six money figures" (columns may touch when a figure is wider than its column)
    let mut rows: Vec<Vec<String>> = vec![];
    for l in &lines {
        let t: Vec<&str> = l.split_whitespace().collect();
        if t.len() >= 3 && t[0].len() == 7 && t[0].as_bytes()[4] == b'/' && t[0][..4].chars().all(|c| c.is_ascii_digit()) && t[1].chars().all(|c| c.is_ascii_digit()) {
            let mut row = vec![t[0].to_string(), t[1].to_string()];
            row.extend(money_tokens(l));
            rows.push(row);
        }
    }
    if rows.len() != f.len() {
        p.push(("plain-lists", format!("summary lists {} tax years, the report has {}", rows.len(), f.len())));
    }
    for (row, y) in rows.iter().zip(f.iter()) {
        if row[0] != tax_year_label(y.year) {
            p.push(("plain-lists", format!("summary row labelled {} expected {}", row[0], tax_year_label(y.year))));
        }
        if row[1] != y.count.to_string() {
            p.push(("plain-figures", format!("{}: disposal count shown {} expected {}", row[0], row[1], y.count)));
        }
        for (i, (what, v)) in [("net gain", &y.net), ("total gain", &y.gain), ("total loss", &y.loss), ("proceeds", &y.proceeds), ("exemption", &y.exempt), ("taxable gain", &y.taxable)].iter().enumerate() {
            expect_money(&mut p, "plain-figures", &format!("summary {} {what}", row[0]), row.get(2 + i), v, true);
        }
    }
    // disposals
    let all: Vec<&DisposalFacts> = f.iter().flat_map(|y| y.disposals.iter()).collect();
    let mut blocks: Vec<Vec<&str>> = vec![];
    for l in &lines {
        let is_head = l.split_once(") SELL ").map(|(n, _)| n.chars().all(|c| c.is_ascii_digit()) && !n.is_empty()).unwrap_or(false);
        if is_head {
            blocks.push(vec![l]);
        } else if l.starts_with("   ") {
            if let Some(b) = blocks.last_mut() {
                b.push(l);
            }
        } else if l.starts_with('#') && !blocks.is_empty() && l.starts_with("# HOLDINGS") {
            break;
        }
    }
    if blocks.len() != all.len() {
        p.push(("plain-lists", format!("{} disposal blocks, the report has {} disposals", blocks.len(), all.len())));
    }
    for (b, d) in blocks.iter().zip(all.iter()) {
        let head = b[0];
        let want_head = format!("SELL {} {} on {} - {}", trimmed(d.qty), d.ticker, ddmmyyyy(d.date), if !d.gain.is_neg() { "GAIN" } else { "LOSS" });
        if !head.contains(&want_head) {
            p.push(("plain-figures", format!("disposal header '{head}' should contain '{want_head}'")));
        }
        expect_money(&mut p, "plain-figures", &format!("{} {} header amount", d.date, d.ticker), money_tokens(head).last(), &d.gain.abs(), true);
        let mut legs_shown = 0;
        for l in b.iter().skip(1) {
            let t = l.trim();
            let toks = money_tokens(t);
            if t.starts_with("Same Day:") || t.starts_with("B&B:") || t.starts_with("Section 104:") {
                let Some(leg) = d.legs.get(legs_shown) else {
                    p.push(("plain-lists", format!("{} {}: more leg lines than legs", d.date, d.ticker)));
                    continue;
                };
                legs_shown += 1;
                let want = match leg.0 {
                    MatchRule::SameDay => format!("Same Day: {} shares", trimmed(leg.1)),
                    MatchRule::BedAndBreakfast => format!("B&B: {} shares from {}", trimmed(leg.1), leg.2.map(ddmmyyyy).unwrap_or_default()),
                    MatchRule::Section104 => format!("Section 104: {} shares @ ", trimmed(leg.1)),
                };
                if !t.starts_with(&want) {
                    p.push(("plain-figures", format!("leg line '{t}' expected to start with '{want}'")));
                }
                if leg.0 == MatchRule::Section104 && !leg.1.is_zero() {
                    expect_money(&mut p, "plain-figures", &format!("{} {} Section 104 unit cost", d.date, d.ticker), toks.last(), &(&leg.3 / &r(leg.1)), false);
                }
            } else if t.starts_with("Gross Proceeds:") {
                expect_money(&mut p, "plain-figures", &format!("{} {} gross proceeds", d.date, d.ticker), toks.last(), &d.gross, true);
                if toks.len() >= 2 && !d.qty.is_zero() {
                    expect_money(&mut p, "plain-figures", &format!("{} {} unit price", d.date, d.ticker), toks.first(), &(&d.gross / &r(d.qty)), false);
                }
            } else if t.starts_with("Net Proceeds:") {
                expect_money(&mut p, "plain-figures", &format!("{} {} net proceeds", d.date, d.ticker), toks.last(), &d.net, true);
                expect_money(&mut p, "plain-figures", &format!("{} {} sale fees", d.date, d.ticker), toks.get(1), &d.fees, true);
            } else if t.starts_with("Cost:") {
                expect_money(&mut p, "plain-figures", &format!("{} {} cost", d.date, d.ticker), toks.last(), &d.cost, true);
            } else if t.starts_with("Result:") {
                expect_money(&mut p, "plain-figures", &format!("{} {} result", d.date, d.ticker), toks.last(), &d.gain, true);
            }
        }
        if legs_shown != d.legs.len() {
            p.push(("plain-lists", format!("{} {}: {} leg lines for {} legs", d.date, d.ticker, legs_shown, d.legs.len())));
        }
        if d.fees.is_pos() && !b.iter().any(|l| l.trim().starts_with("Net Proceeds:")) {
            p.push(("plain-figures", format!("{} {}: sale fees {} but no Net Proceeds line", d.date, d.ticker, d.fees)));
        }
    }
    // holdings
    let mut in_h = false;
    let mut shown: BTreeMap<String, (String, String)> = BTreeMap::new();
    for l in &lines {
        if l.starts_with("# ") {
            in_h = l.trim() == "# HOLDINGS";
            continue;
        }
        if in_h {
            if let Some((tk, rest)) = l.split_once(": ") {
                let t: Vec<&str> = rest.split_whitespace().collect();
                if t.len() >= 4 {
                    shown.insert(tk.to_string(), (t[0].to_string(), t[3].to_string()));
                }
            }
        }
    }
    let pos: Vec<_> = rep.holdings.iter().filter(|h| h.quantity > Decimal::ZERO).collect();
    if shown.len() != pos.len() {
        p.push(("plain-lists", format!("{} holdings shown, {} positive holdings in the report", shown.len(), pos.len())));
    }
    for h in pos {
        match shown.get(&h.ticker) {
            None => p.push(("plain-lists", format!("holding {} not shown", h.ticker))),
            Some((q, avg)) => {
                if *q != trimmed(h.quantity) {
                    p.push(("plain-figures", format!("holding {}: quantity shown {q}, exact {}", h.ticker, trimmed(h.quantity))));
                }
                expect_money(&mut p, "plain-figures", &format!("holding {} average cost", h.ticker), Some(avg), &(r(h.total_cost) / r(h.quantity)), false);
            }
        }
    }
    p
}

// ---------------------------------------------------------------------------------------- JSON (CLI and MCP)
fn jmoney(p: &mut Problems, clause: &'static str, what: &str, v: &Value, full: &Rat) {
    match v.as_str().and_then(|s| Decimal::from_str(s).ok()) {
        None => p.push((clause, format!("{what}: not a decimal string: {v}"))),
        Some(shown) => {
            if !shown_ok(shown, full) {
                p.push((clause, format!("{what}: shown {shown}, computed value {} (to pence, midpoint away from zero: {})", full, money_str(&pence(full)))));
            }
        }
    }
}
fn jexact(p: &mut Problems, clause: &'static str, what: &str, v: &Value, full: Decimal) {
    if v.as_str().and_then(|s| Decimal::from_str(s).ok()) != Some(full) {
        p.push((clause, format!("{what}: shown {v}, exact {full}")));
    }
}

fn check_json(rep: &TaxReport, j: &Value, clause_fig: &'static str, clause_list: &'static str) -> Problems {
    let mut p: Problems = vec![];
    let f = facts(rep);
    let years = j["tax_years"].as_array().cloned().unwrap_or_default();
    if years.len() != f.len() {
        p.push((clause_list, format!("{} tax years listed, the report has {}", years.len(), f.len())));
    }
    for (jy, y) in years.iter().zip(f.iter()) {
        let lab = tax_year_label(y.year);
        if jy["period"].as_str() != Some(lab.as_str()) {
            p.push((clause_list, format!("period {} expected {lab}", jy["period"])));
        }
        if jy["disposal_count"].as_u64() != Some(y.count as u64) {
            p.push((clause_fig, format!("{lab}: disposal_count {} expected {}", jy["disposal_count"], y.count)));
        }
        for (k, v) in [("total_gain", &y.gain), ("total_loss", &y.loss), ("net_gain", &y.net), ("exempt_amount", &y.exempt)] {
            jmoney(&mut p, clause_fig, &format!("{lab} {k}"), &jy[k], v);
        }
        let ds = jy["disposals"].as_array().cloned().unwrap_or_default();
        if ds.len() != y.disposals.len() {
            p.push((clause_list, format!("{lab}: {} disposals listed, the report has {}", ds.len(), y.disposals.len())));
        }
        for (jd, d) in ds.iter().zip(y.disposals.iter()) {
            let id = format!("{} {}", d.date, d.ticker);
            if jd["date"].as_str() != Some(d.date.to_string().as_str()) || jd["ticker"].as_str() != Some(d.ticker.as_str()) {
                p.push((clause_list, format!("disposal {} {} expected {id}", jd["date"], jd["ticker"])));
            }
            jexact(&mut p, clause_fig, &format!("{id} quantity"), &jd["quantity"], d.qty);
            jmoney(&mut p, clause_fig, &format!("{id} gross_proceeds"), &jd["gross_proceeds"], &d.gross);
            jmoney(&mut p, clause_fig, &format!("{id} proceeds"), &jd["proceeds"], &d.net);
            let ms = jd["matches"].as_array().cloned().unwrap_or_default();
            if ms.len() != d.legs.len() {
                p.push((clause_list, format!("{id}: {} legs listed, the report has {}", ms.len(), d.legs.len())));
            }
            for (jm, l) in ms.iter().zip(d.legs.iter()) {
                let rule = match l.0 {
                    MatchRule::SameDay => "SameDay",
                    MatchRule::BedAndBreakfast => "BedAndBreakfast",
                    MatchRule::Section104 => "Section104",
                };
                if jm["rule"].as_str() != Some(rule) {
                    p.push((clause_list, format!("{id}: leg rule {} expected {rule}", jm["rule"])));
                }
                jexact(&mut p, clause_fig, &format!("{id} leg quantity"), &jm["quantity"], l.1);
                jmoney(&mut p, clause_fig, &format!("{id} leg allowable_cost"), &jm["allowable_cost"], &l.3);
                jmoney(&mut p, clause_fig, &format!("{id} leg gain_or_loss"), &jm["gain_or_loss"], &l.4);
                if jm.get("acquisition_date").and_then(|x| x.as_str()).map(String::from) != l.2.map(|d| d.to_string()) {
                    p.push((clause_list, format!("{id}: leg acquisition_date {:?} expected {:?}", jm.get("acquisition_date"), l.2)));
                }
            }
        }
    }
    let hs = j["holdings"].as_array().cloned().unwrap_or_default();
    if hs.len() != rep.holdings.len() {
        p.push((clause_list, format!("{} holdings listed, the report has {}", hs.len(), rep.holdings.len())));
    }
    for (jh, h) in hs.iter().zip(rep.holdings.iter()) {
        if jh["ticker"].as_str() != Some(h.ticker.as_str()) {
            p.push((clause_list, format!("holding {} expected {}", jh["ticker"], h.ticker)));
        }
        jexact(&mut p, clause_fig, &format!("holding {} quantity", h.ticker), &jh["quantity"], h.quantity);
        jmoney(&mut p, clause_fig, &format!("holding {} total_cost", h.ticker), &jh["total_cost"], &r(h.total_cost));
    }
    p
}

// ---------------------------------------------------------------------------------------- PDF text runs
fn check_pdf(rep: &TaxReport, runs: &[(usize, f64, f64, String)]) -> Problems {
    let mut p: Problems = vec![];
    let f = facts(rep);
    // lines: group by (page, y) within 0.6pt, sort by x, join with a space
    let mut rs: Vec<&(usize, f64, f64, String)> = runs.iter().collect();
    rs.sort_by(|a, b| (a.0, a.2, a.1).partial_cmp(&(b.0, b.2, b.1)).unwrap_or(std::cmp::Ordering::Equal));
    let mut lines: Vec<(usize, f64, Vec<(f64, String)>)> = vec![];
    for r0 in rs {
        match lines.last_mut() {
            Some((pg, y, items)) if *pg == r0.0 && (r0.2 - *y).abs() < 0.6 => items.push((r0.1, r0.3.clone())),
            _ => lines.push((r0.0, r0.2, vec![(r0.1, r0.3.clone())])),
        }
    }
    let text: Vec<String> = lines
        .iter()
        .map(|(_, _, items)| {
            let mut it = items.clone();
            it.sort_by(|a, b| a.0.partial_cmp(&b.0).unwrap_or(std::cmp::Ordering::Equal));
            it.iter().map(|x| x.1.trim().to_string()).filter(|s| !s.is_empty()).collect::<Vec<_>>().join(" ").replace('\u{2212}', "-")
        })
        .collect();
    // summary: by column (8 equal columns); a cell may wrap (sign on one line, amount on the next)
    let is_year = |s: &str| s.len() == 7 && s.as_bytes()[4] == b'/' && s[..4].chars().all(|c| c.is_ascii_digit()) && s[5..].chars().all(|c| c.is_ascii_digit());
    // summary table: cells come in document order (year, count, six money cells); a cell that does not fit its
    // column wraps into several runs (e.g. the sign on one line and the amount on the next)
    let i_head = runs.iter().position(|r0| r0.3 == "Taxable gain");
    let i_notes = runs.iter().position(|r0| r0.3.starts_with("Notes:"));
    if let (Some(ih), Some(inn)) = (i_head, i_notes) {
        let mut rows: Vec<Vec<String>> = vec![];
        for r0 in &runs[ih + 1..inn] {
            let t = r0.3.trim().replace('\u{2212}', "-");
            if t.is_empty() {
                continue;
            }
            if is_year(&t) {
                rows.push(vec![t]);
                continue;
            }
            let Some(row) = rows.last_mut() else { continue };
            let merge = row.len() > 2 && row.last().map(|l| l == "-" || (l.starts_with('-') || l.starts_with('£')) && !l.contains('.')).unwrap_or(false);
            if merge {
                if let Some(l) = row.last_mut() {
                    l.push_str(&t);
                }
            } else {
                row.push(t);
            }
        }
        for row in rows.iter_mut() {
            row.resize(8, String::new());
        }
        if rows.len() != f.len() {
            p.push(("pdf-lists", format!("summary shows {} tax years, the report has {}", rows.len(), f.len())));
        }
        for (row, y) in rows.iter().zip(f.iter()) {
            let lab = tax_year_label(y.year);
            if row[0] != lab {
                p.push(("pdf-lists", format!("summary row '{}' expected {lab}", row[0])));
            }
            if row[1] != y.count.to_string() {
                p.push(("pdf-figures", format!("{lab}: disposal count shown '{}' expected {}", row[1], y.count)));
            }
            for (i, (what, v)) in [("net gain", &y.net), ("total gain", &y.gain), ("total loss", &y.loss), ("proceeds", &y.proceeds), ("exemption", &y.exempt), ("taxable gain", &y.taxable)].iter().enumerate() {
                expect_money(&mut p, "pdf-figures", &format!("summary {lab} {what}"), Some(&row[2 + i]), v, true);
            }
        }
    } else {
        p.push(("pdf-lists", "summary table not found in the PDF text".into()));
    }
    // disposal blocks in document order
    let all: Vec<&DisposalFacts> = f.iter().flat_map(|y| y.disposals.iter()).collect();
    let mut di = 0usize;
    let mut legs_seen = 0usize;
    let mut started = false;
    for l in &text {
        if l.contains(" shares Sold ") && (l.contains("GAIN") || l.contains("LOSS")) {
            if started {
                if let Some(d) = all.get(di) {
                    if legs_seen != d.legs.len() {
                        p.push(("pdf-lists", format!("{} {}: {} leg lines for {} legs", d.date, d.ticker, legs_seen, d.legs.len())));
                    }
                }
                di += 1;
            }
            started = true;
            legs_seen = 0;
            let Some(d) = all.get(di) else {
                p.push(("pdf-lists", "more disposal blocks in the PDF than disposals in the report".into()));
                break;
            };
            let want = format!("{} {} shares Sold {}", d.ticker, qty6(d.qty), ddmmyyyy(d.date));
            if !l.contains(&want) {
                p.push(("pdf-figures", format!("disposal header '{l}' should contain '{want}'")));
            }
            let label = if !d.gain.is_neg() { "GAIN" } else { "LOSS" };
            if !l.contains(label) {
                p.push(("pdf-figures", format!("disposal header '{l}' should say {label}")));
            }
            expect_money(&mut p, "pdf-figures", &format!("{} {} header amount", d.date, d.ticker), money_tokens(l).last(), &d.gain.abs(), true);
            continue;
        }
        if !started {
            continue;
        }
        let Some(d) = all.get(di) else { break };
        let toks = money_tokens(l);
        if l.contains("Same Day:") || l.contains("B&B:") || l.contains("Section 104:") {
            if let Some(leg) = d.legs.get(legs_seen) {
                let want = match leg.0 {
                    MatchRule::SameDay => format!("Same Day: {} shares", qty6(leg.1)),
                    MatchRule::BedAndBreakfast => format!("B&B: {} shares from {}", qty6(leg.1), leg.2.map(ddmmyyyy).unwrap_or_default()),
                    MatchRule::Section104 => format!("Section 104: {} shares @ ", qty6(leg.1)),
                };
                if !l.contains(&want) {
                    p.push(("pdf-figures", format!("leg line '{l}' should contain '{want}'")));
                }
                if leg.0 == MatchRule::Section104 && !leg.1.is_zero() {
                    expect_money(&mut p, "pdf-figures", &format!("{} {} Section 104 unit cost", d.date, d.ticker), toks.last(), &(&leg.3 / &r(leg.1)), true);
                }
            }
            legs_seen += 1;
        }
        if l.contains("Gross Proceeds:") {
            expect_money(&mut p, "pdf-figures", &format!("{} {} gross proceeds", d.date, d.ticker), toks.last(), &d.gross, true);
            if toks.len() >= 2 && !d.qty.is_zero() {
                expect_money(&mut p, "pdf-figures", &format!("{} {} unit price", d.date, d.ticker), toks.first(), &(&d.gross / &r(d.qty)), true);
            }
        }
        if l.contains("Net Proceeds:") {
            expect_money(&mut p, "pdf-figures", &format!("{} {} net proceeds", d.date, d.ticker), toks.last(), &d.net, true);
            expect_money(&mut p, "pdf-figures", &format!("{} {} sale fees", d.date, d.ticker), toks.get(1), &d.fees, true);
        }
        if l.contains("Cost:") && !l.contains("Avg Cost") {
            expect_money(&mut p, "pdf-figures", &format!("{} {} cost", d.date, d.ticker), toks.last(), &d.cost, true);
        }
        if l.contains("Result:") {
            expect_money(&mut p, "pdf-figures", &format!("{} {} result", d.date, d.ticker), toks.last(), &d.gain, true);
        }
        if l.starts_with("Holdings") {
            break;
        }
    }
    let blocks = if started { di + 1 } else { 0 };
    if blocks != all.len() {
        p.push(("pdf-lists", format!("{} disposal blocks in the PDF, the report has {} disposals", blocks, all.len())));
    }
    // holdings table
    let hi = text.iter().position(|l| l.starts_with("Ticker Quantity Avg Cost"));
    let pos: Vec<_> = rep.holdings.iter().filter(|h| h.quantity > Decimal::ZERO).collect();
    match hi {
        None => {
            if !pos.is_empty() {
                p.push(("pdf-lists", "holdings table not found although positive holdings exist".into()));
            }
        }
        Some(i) => {
            let rows: Vec<&String> = text.iter().skip(i + 1).take_while(|l| !l.starts_with("Transactions")).collect();
            if rows.len() != pos.len() {
                p.push(("pdf-lists", format!("{} holdings rows, {} positive holdings", rows.len(), pos.len())));
            }
            for (row, h) in rows.iter().zip(pos.iter()) {
                let want = format!("{} {} ", h.ticker, qty6(h.quantity));
                if !row.starts_with(&want) {
                    p.push(("pdf-figures", format!("holdings row '{row}' should start with '{want}'")));
                }
                expect_money(&mut p, "pdf-figures", &format!("holding {} average cost", h.ticker), money_tokens(row).last(), &(r(h.total_cost) / r(h.quantity)), true);
            }
        }
    }
    // transactions table: dates DD/MM/YYYY, every BUY/SELL line of the ledger present
    let trades: Vec<&Transaction> = rep.transactions.iter().filter(|t| matches!(t.operation, cgt_core::Operation::Buy { .. } | cgt_core::Operation::Sell { .. })).collect();
    let shown = text.iter().filter(|l| l.len() > 10 && l.as_bytes()[2] == b'/' && l.as_bytes()[5] == b'/' && (l.contains(" BUY ") || l.contains(" SELL "))).count();
    if shown != trades.len() {
        p.push(("pdf-lists", format!("{} BUY/SELL rows in the transactions table, the ledger has {}", shown, trades.len())));
    }
    p
}


// ---------------------------------------------------------------------------------------- transaction echoes
/// A displayed number must equal the full value or the value rounded half away from zero at the displayed precision.
fn shown_number_ok(shown: &str, full: &Rat) -> bool {
    let t = shown.replace(',', "").replace('\u{2212}', "-");
    let Ok(v) = Decimal::from_str(&t) else { return false };
    let dp = t.split('.').nth(1).map(|f| f.len() as u32).unwrap_or(0);
    let sv = r(v);
    if &sv == full || sv.close(full) {
        return true;
    }
    let scale = num_bigint::BigInt::from(10).pow(dp);
    sv == Rat::new(full.round_half_away_scaled(dp), scale)
}
fn numeric_part(tok: &str) -> String {
    let t = tok.trim_matches(|c| c == '(' || c == ')');
    let start = t.find(|c: char| c.is_ascii_digit()).unwrap_or(t.len());
    let neg = t[..start].contains('-') || t[..start].contains('\u{2212}');
    format!("{}{}", if neg { "-" } else { "" }, &t[start..])
}
fn op_name(t: &Transaction) -> &'static str {
    use cgt_core::Operation::*;
    match t.operation {
        Buy { .. } => "BUY",
        Sell { .. } => "SELL",
        Dividend { .. } => "DIVIDEND",
        Accumulation { .. } => "ACCUMULATION",
        CapReturn { .. } => "CAPRETURN",
        Split { .. } => "SPLIT",
        Unsplit { .. } => "UNSPLIT",
    }
}

/// The echoed transactions and asset events of the plain-text report (requires unique (date, kind, ticker) lines).
fn check_plain_echo(rep: &TaxReport, plain: &str) -> Problems {
    use cgt_core::Operation::*;
    let mut p: Problems = vec![];
    let mut section = "";
    let mut seen = 0usize;
    for l in plain.lines() {
        if l.starts_with("# ") {
            section = l.trim();
            continue;
        }
        if l.trim().is_empty() || (section != "# TRANSACTIONS" && section != "# ASSET EVENTS") {
            continue;
        }
        let t: Vec<&str> = l.split_whitespace().collect();
        if t.len() < 4 {
            p.push(("plain-echo", format!("unreadable echo line '{l}'")));
            continue;
        }
        let (date, kind) = (t[0], t[1]);
        let ticker = if section == "# TRANSACTIONS" { t[3] } else { t[2] };
        let Some(tx) = rep.transactions.iter().find(|x| ddmmyyyy(x.date) == date && op_name(x) == kind && x.ticker == ticker) else {
            p.push(("plain-echo", format!("echo line '{l}' matches no transaction of the ledger")));
            continue;
        };
        seen += 1;
        let dress = |p: &mut Problems, what: &str, tok: &str, a: &cgt_core::CurrencyAmount| {
            if !shown_number_ok(&numeric_part(tok), &r(a.amount)) {
                p.push(("plain-echo", format!("{date} {kind} {ticker} {what}: shown '{tok}', value {}", a.amount)));
            }
            if a.currency.code() == "GBP" && !tok.trim_matches('(').replace('\u{2212}', "-").trim_start_matches('-').starts_with('£') {
                p.push(("plain-echo", format!("{date} {kind} {ticker} {what}: GBP amount '{tok}' not shown with £")));
            }
        };
        match &tx.operation {
            Buy { amount, price, fees } | Sell { amount, price, fees } => {
                if t[2] != trimmed(*amount) {
                    p.push(("plain-echo", format!("{date} {kind} {ticker}: quantity shown {} exact {}", t[2], trimmed(*amount))));
                }
                if t.len() >= 8 {
                    dress(&mut p, "price", t[5], price);
                    dress(&mut p, "fees", t[6], fees);
                } else {
                    p.push(("plain-echo", format!("unreadable trade line '{l}'")));
                }
            }
            Dividend { total_value, .. } => dress(&mut p, "total", t[3], total_value),
            Accumulation { amount, total_value, .. } | CapReturn { amount, total_value, .. } => {
                if t[3] != trimmed(*amount) {
                    p.push(("plain-echo", format!("{date} {kind} {ticker}: quantity shown {} exact {}", t[3], trimmed(*amount))));
                }
                if t.len() >= 5 {
                    dress(&mut p, "total", t[4], total_value);
                }
            }
            Split { ratio } | Unsplit { ratio } => {
                if t[3] != trimmed(*ratio) {
                    p.push(("plain-echo", format!("{date} {kind} {ticker}: ratio shown {} exact {}", t[3], trimmed(*ratio))));
                }
            }
        }
    }
    if seen != rep.transactions.len() {
        p.push(("plain-lists", format!("{} transactions echoed, the ledger has {}", seen, rep.transactions.len())));
    }
    p
}

/// The Transactions and Asset Events tables of the PDF.
fn check_pdf_echo(rep: &TaxReport, runs: &[(usize, f64, f64, String)]) -> Problems {
    use cgt_core::Operation::*;
    let mut p: Problems = vec![];
    // rows in document order: a row starts with a DD/MM/YYYY run
    let is_date = |s: &str| s.len() == 10 && s.as_bytes()[2] == b'/' && s.as_bytes()[5] == b'/';
    let start = runs.iter().position(|x| x.3 == "Transactions").unwrap_or(runs.len());
    let mut rows: Vec<Vec<String>> = vec![];
    for x in &runs[start..] {
        let t = x.3.trim().replace('\u{2212}', "-");
        if t.is_empty() || t.starts_with("Page ") {
            continue;
        }
        if is_date(&t) {
            rows.push(vec![t]);
        } else if let Some(row) = rows.last_mut() {
            row.push(t);
        }
    }
    let mut seen = 0usize;
    for row in &rows {
        if row.len() < 4 {
            continue;
        }
        let (date, kind, ticker) = (&row[0], &row[1], &row[2]);
        let Some(tx) = rep.transactions.iter().find(|x| &ddmmyyyy(x.date) == date && op_name(x) == kind && &x.ticker == ticker) else {
            p.push(("pdf-echo", format!("PDF row {row:?} matches no transaction of the ledger")));
            continue;
        };
        seen += 1;
        let amount_ok = |p: &mut Problems, what: &str, cell: &str, a: &cgt_core::CurrencyAmount| {
            // "£1,234.57" or "USD 1,234.57"
            let (code_ok, num) = if a.currency.code() == "GBP" { (cell.trim_start_matches('-').starts_with('£'), numeric_part(cell)) } else { (cell.contains(a.currency.code()), numeric_part(cell.trim_start_matches(|c: char| c.is_ascii_alphabetic() || c == ' '))) };
            if !code_ok || !shown_number_ok(&num, &r(a.amount)) {
                p.push(("pdf-echo", format!("{date} {kind} {ticker} {what}: shown '{cell}', value {} {}", a.amount, a.currency.code())));
            }
        };
        match &tx.operation {
            Buy { amount, price, fees } | Sell { amount, price, fees } => {
                if row.len() >= 6 {
                    if row[3] != qty6(*amount) {
                        p.push(("pdf-echo", format!("{date} {kind} {ticker}: quantity shown {} expected {}", row[3], qty6(*amount))));
                    }
                    amount_ok(&mut p, "price", &row[4], price);
                    amount_ok(&mut p, "fees", &row[5], fees);
                } else {
                    p.push(("pdf-echo", format!("unreadable PDF trade row {row:?}")));
                }
            }
            Dividend { total_value, .. } => {
                if row.len() >= 5 {
                    amount_ok(&mut p, "total", &row[4], total_value);
                }
            }
            Accumulation { amount, total_value, .. } | CapReturn { amount, total_value, .. } => {
                if row.len() >= 5 {
                    if row[3] != qty6(*amount) {
                        p.push(("pdf-echo", format!("{date} {kind} {ticker}: quantity shown {} expected {}", row[3], qty6(*amount))));
                    }
                    amount_ok(&mut p, "total", &row[4], total_value);
                }
            }
            Split { ratio } | Unsplit { ratio } => {
                if row.len() >= 4 && row[3] != qty6(*ratio) {
                    p.push(("pdf-echo", format!("{date} {kind} {ticker}: ratio shown {} expected {}", row[3], qty6(*ratio))));
                }
            }
        }
    }
    if seen != rep.transactions.len() {
        p.push(("pdf-lists", format!("{} transactions echoed in the PDF tables, the ledger has {}", seen, rep.transactions.len())));
    }
    p
}

// ---------------------------------------------------------------------------------------- the lattice
fn lattice(tier: Tier) -> Vec<(String, Vec<Transaction>)> {
    let d0 = alpha::date(2024, 1, 10);
    let d1 = alpha::date(2024, 2, 1);
    let mut out = vec![];
    let steps: Vec<i64> = (-400..=400).collect(); // multiples of 0.005 from -2.00 to +2.00
    let h = |k: i64| Decimal::new(k * 5, 3);
    for k in &steps {
        let g = h(*k);
        // A: proceeds and gain on the lattice
        out.push((format!("gain-lattice {g}"), vec![alpha::buy(d0, "X", "2", "10", "0"), alpha::sell(d1, "X", "1", &(dec("10") + g).to_string(), "0")]));
        // B: cost, unit cost and closing average cost on the lattice
        out.push((format!("cost-lattice {g}"), vec![alpha::buy(d0, "X", "2", &(dec("10") + g).to_string(), "0"), alpha::sell(d1, "X", "1", "12", "0")]));
    }
    let mag_steps: Vec<i64> = if tier == Tier::Quick { (-8..=8).collect() } else { (-100..=100).collect() };
    for k in &mag_steps {
        let g = h(*k);
        out.push((format!("million-gain {g}"), vec![alpha::buy(d0, "X", "1", "1", "0"), alpha::sell(d1, "X", "1", &(dec("1000000.995") + g).to_string(), "0")]));
        out.push((format!("million-loss {g}"), vec![alpha::buy(d0, "X", "1", &(dec("1234568.885") + g).to_string(), "0"), alpha::sell(d1, "X", "1", "1", "0")]));
        out.push((format!("fees-lattice {g}"), vec![alpha::buy(d0, "X", "2", "10", "0.005"), alpha::sell(d1, "X", "1", "16.005", &(dec("0.505") + g).to_string())]));
        out.push((format!("usd-echo {g}"), vec![alpha::buy(d0, "X", "2", &format!("{} USD", dec("1234.565") + g), "1.005 USD"), alpha::sell(d1, "X", "1", &format!("{} USD", dec("2000.005") + g), "0")]));
    }
    // foreign-currency echoes on half-minor-unit midpoints: prices, fees, dividend / accumulation / capital-return totals
    let echo_steps: Vec<i64> = if tier == Tier::Quick { (-6..=6).collect() } else { (-40..=40).collect() };
    for k in &echo_steps {
        let g = h(*k);
        out.push((
            format!("fx-echo {g}"),
            vec![
                alpha::buy(d0, "X", "2", &format!("{} USD", dec("1234.565") + g), &format!("{} USD", dec("1.005") + g)),
                alpha::buy(alpha::date(2024, 1, 11), "Y", "3", &format!("{} JPY", dec("150.5") + g), "0"),
                alpha::sell(d1, "X", "1", &format!("{} USD", dec("2000.005") + g), "0"),
                alpha::dividend(alpha::date(2024, 3, 1), "X", &format!("{} USD", dec("20.125") + g), "1 USD"),
                alpha::accum(alpha::date(2024, 3, 2), "X", "1", &format!("{} EUR", dec("7.665") + g), "0"),
                alpha::capret(alpha::date(2024, 3, 3), "X", "1", &format!("{} JPY", dec("100.5") + Decimal::from(*k)), "0"),
                alpha::dividend(alpha::date(2024, 3, 4), "Y", &(dec("3.335") + g).to_string(), "0"),
                alpha::split(alpha::date(2024, 3, 5), "Y", "2.5"),
            ],
        ));
    }
    for q in ["1.5", "1.25", "0.125", "0.0625", "0.03125", "0.015625", "0.0078125", "0.00390625", "0.001953125", "0.0009765625", "3.3333333333", "1000000.5"] {
        out.push((format!("quantity {q}"), vec![alpha::buy(d0, "X", &(dec(q) * dec("2")).to_string(), "10.005", "0"), alpha::sell(d1, "X", q, "12.345", "0.1")]));
    }
    // unit counts of ACCUMULATION / CAPRETURN events and SPLIT / UNSPLIT ratios with 1..10 decimals (the ASSET EVENTS
    // section of the text report and the asset-events table of the PDF echo them: exactly / to six places)
    for q in ["1.5", "1.25", "0.125", "250.125", "0.0625", "0.03125", "0.015625", "0.0078125", "0.00390625", "0.001953125", "0.0009765625", "3.3333333333", "1000000.5", "2.005", "2.995"] {
        out.push((
            format!("quantity-of-event {q}"),
            vec![
                alpha::buy(d0, "X", &(dec(q) * dec("2")).to_string(), "10.005", "0"),
                alpha::buy(d0, "Y", "8", "3", "0"),
                alpha::accum(alpha::date(2024, 3, 2), "X", q, "7.5", "0"),
                alpha::capret(alpha::date(2024, 3, 3), "X", q, "1.25", "0"),
                alpha::split(alpha::date(2024, 3, 5), "Y", q),
                alpha::unsplit(alpha::date(2024, 3, 6), "Y", q),
            ],
        ));
    }
    // a gain and a loss in one tax year, each with every sub-penny remainder (tenths of a penny): year totals whose
    // roundings do not add up
    for a in 0..=9i64 {
        for b in 0..=9i64 {
            out.push((
                format!("gain-loss-year {a} {b}"),
                vec![
                    alpha::buy(d0, "A", "1", "10", "0"),
                    alpha::buy(d0, "B", "1", "10", "0"),
                    alpha::sell(d1, "A", "1", &(dec("20") + Decimal::new(a, 3)).to_string(), "0"),
                    alpha::sell(alpha::date(2024, 2, 2), "B", "1", &(dec("5") - Decimal::new(b, 3)).to_string(), "0"),
                ],
            ));
        }
    }
    // a repurchase 29, 30 and 31 days after the sale and a capital return in a later tax year (front-ends that
    // recompute from a cut-down history show other legs)
    for gap in [29i64, 30, 31] {
        let s0 = alpha::date(2024, 2, 1);
        out.push((
            format!("multi-window {gap}"),
            vec![
                alpha::buy(alpha::date(2023, 1, 10), "A", "100", "10.005", "1"),
                alpha::sell(s0, "A", "60", "12.345", "0.5"),
                alpha::buy(s0 + chrono::Duration::days(gap), "A", "40", "11.115", "1"),
                alpha::capret(alpha::date(2025, 3, 1), "A", "80", "200.005", "0"),
                alpha::sell(alpha::date(2025, 6, 1), "A", "10", "13.335", "0"),
            ],
        ));
    }
    // a disposal spread in thirds over the three rules, its sale fee swept over every half-penny: the legs' fee
    // shares (f/3) do not terminate, so the sum of the legs and proceeds minus cost differ in the 26th place, which
    // decides the displayed penny exactly on the half-penny midpoints; a gain and a loss variant
    let third_steps: Vec<i64> = if tier == Tier::Quick { (2000..=2800).collect() } else { (0..=4000).collect() };
    for k in &third_steps {
        let f = h(*k);
        for (name, p1, p2) in [("thirds-gain", "9.50", "9.00"), ("thirds-loss", "11.50", "11.25")] {
            out.push((
                format!("{name} {f}"),
                vec![
                    alpha::buy(d0, "A", "100", "10", "0"),
                    alpha::buy(alpha::date(2024, 6, 3), "A", "10", p1, "0"),
                    alpha::sell(alpha::date(2024, 6, 3), "A", "30", "10.0335", &f.to_string()),
                    alpha::buy(alpha::date(2024, 6, 10), "A", "10", p2, "0"),
                ],
            ));
        }
    }
    // several legs, several years, a loss year and a zero result
    out.push((
        "multi".to_string(),
        vec![
            alpha::buy(alpha::date(2022, 1, 10), "A", "10", "10.005", "1"),
            alpha::buy(alpha::date(2022, 1, 10), "B", "7", "3.335", "0"),
            alpha::sell(alpha::date(2022, 6, 1), "A", "4", "12.505", "0.005"),
            alpha::buy(alpha::date(2022, 6, 1), "A", "1", "11", "0"),
            alpha::buy(alpha::date(2022, 6, 20), "A", "1", "11.5", "0"),
            alpha::sell(alpha::date(2023, 5, 1), "B", "3", "1.005", "0"),
            alpha::sell(alpha::date(2024, 5, 1), "B", "4", "3.335", "0"),
            alpha::dividend(alpha::date(2023, 5, 2), "B", "3.335", "0.335"),
        ],
    ));
    out
}

fn viol(clause: &str, txs: &[Transaction], detail: String, frontend: &str, profile: &str) -> Violation {
    Violation { clause: clause.into(), input: Input::Ledger(txs.to_vec()), detail, context: json!({"variant": frontend, "profile": profile.split(' ').next().unwrap_or("")}) }
}

pub fn c17(tier: Tier) -> i32 {
    let mut ctx = Ctx::new("C17", tier, crate::preds());
    let cfg: Config = all_years_config();
    let fx = cgt_money::load_default_cache().unwrap_or_else(|e| machinery_failure(&format!("fx: {e}")));
    let lat = lattice(tier);
    let pdf_every = match tier {
        Tier::Quick => 4usize,
        Tier::Thorough => 1,
    };
    let ctxr: &Ctx = &ctx;
    let mut acc = lat
        .par_iter()
        .enumerate()
        .fold(Acc::new, |mut acc, (i, (name, txs))| {
            acc.states += 1;
            let rep = match cgt_core::calculator::calculate(txs, None, Some(&fx), &cfg) {
                Ok(r) => r,
                Err(e) => machinery_failure(&format!("lattice ledger '{name}' refused: {e}")),
            };
            acc.sample(txs.len(), || json!({"lattice_point": name, "ledger": dsl_text(txs)}));
            acc.validated += 1;
            acc.bump("plain+json compared");
            let plain = cgt_formatter_plain::format(&rep);
            for (c, d) in check_plain(&rep, &plain).into_iter().chain(check_plain_echo(&rep, &plain)) {
                acc.violation(&ctxr.findings, "C17", viol(c, txs, d, "plain text", name));
            }
            let js = serde_json::to_value(&rep).unwrap_or(Value::Null);
            for (c, d) in check_json(&rep, &js, "json-figures", "json-lists") {
                acc.violation(&ctxr.findings, "C17", viol(c, txs, d, "JSON", name));
            }
            if i % pdf_every == 0 || name.starts_with("multi") || name.starts_with("quantity") || name.starts_with("fx-echo") {
                acc.bump("pdf compared");
                acc.bump("transitions");
                match cgt_formatter_pdf::verif_text_runs(&rep) {
                    Ok(runs) => {
                        for (c, d) in check_pdf(&rep, &runs).into_iter().chain(check_pdf_echo(&rep, &runs)) {
                            acc.violation(&ctxr.findings, "C17", viol(c, txs, d, "PDF", name));
                        }
                    }
                    Err(e) => acc.violation(&ctxr.findings, "C17", viol("pdf-fails", txs, e.to_string(), "PDF", name)),
                }
            }
            acc
        })
        .reduce(Acc::new, Acc::merge);
    eprintln!("  [C17] lattice: {} ledgers, {} PDF compiles", acc.states, acc.get("pdf compared"));
    // real front-ends: CLI plain/json and MCP calculate_report / explain_matching on a subset
    if !mcx::proc::tool_exists() {
        machinery_failure("cgt-tool binary missing (run ./setup.sh)");
    }
    let subset: Vec<&(String, Vec<Transaction>)> = lat.iter().enumerate().filter(|(i, (n, _))| i % 97 == 0 || n.starts_with("multi") || n.starts_with("million") && i % 7 == 0).map(|(_, x)| x).collect();
    let part = subset
        .par_iter()
        .fold(Acc::new, |mut acc, (name, txs)| {
            let rep = match cgt_core::calculator::calculate(txs, None, Some(&fx), &cfg) {
                Ok(r) => r,
                Err(_) => return acc,
            };
            acc.states += 1;
            acc.validated += 1;
            acc.bump("front-end processes compared");
            let sc = Scratch::new();
            sc.all_years_config();
            let dsl = dsl_text(txs);
            sc.write("in.cgt", dsl.as_bytes());
            let t = std::time::Duration::from_secs(30);
            let o = run_tool(&["report", "in.cgt"], &sc, t);
            if !o.ok() {
                acc.violation(&ctxr.findings, "C17", viol("cli-fails", txs, o.err(), "CLI plain", name));
            } else {
                for (c, d) in check_plain(&rep, &o.out()) {
                    acc.violation(&ctxr.findings, "C17", viol(c, txs, d, "CLI plain text", name));
                }
            }
            let o = run_tool(&["report", "in.cgt", "--format", "json"], &sc, t);
            match serde_json::from_str::<Value>(&o.out()) {
                Ok(j) if o.ok() => {
                    for (c, d) in check_json(&rep, &j, "json-figures", "json-lists") {
                        acc.violation(&ctxr.findings, "C17", viol(c, txs, d, "CLI JSON", name));
                    }
                }
                _ => acc.violation(&ctxr.findings, "C17", viol("cli-fails", txs, o.err(), "CLI JSON", name)),
            }
            let mut m = Mcp::start(&sc);
            m.send_raw(&tool_call(&json!(1), "calculate_report", json!({"transactions": dsl})));
            let mut ids = vec!["1".to_string()];
            let disposals: Vec<(NaiveDate, String)> = rep.tax_years.iter().flat_map(|y| y.disposals.iter().map(|d| (d.date, d.ticker.clone()))).collect();
            for (k, (d, tk)) in disposals.iter().enumerate() {
                let id = json!(10 + k);
                m.send_raw(&tool_call(&id, "explain_matching", json!({"transactions": dsl, "disposal_date": d.to_string(), "ticker": tk})));
                ids.push(id.to_string());
            }
            if !m.wait_for(&ids, std::time::Duration::from_secs(20)) {
                acc.violation(&ctxr.findings, "C17", viol("mcp-no-response", txs, "no response within 20 s".into(), "MCP", name));
                return acc;
            }
            match tool_text(&m.got["1"][0]).ok().and_then(|s| serde_json::from_str::<Value>(&s).ok()) {
                Some(j) => {
                    for (c, d) in check_json(&rep, &j, "mcp-figures", "mcp-lists") {
                        acc.violation(&ctxr.findings, "C17", viol(c, txs, d, "MCP calculate_report", name));
                    }
                }
                None => acc.violation(&ctxr.findings, "C17", viol("mcp-fails", txs, "calculate_report failed".into(), "MCP", name)),
            }
            let f = facts(&rep);
            let all: Vec<&DisposalFacts> = f.iter().flat_map(|y| y.disposals.iter()).collect();
            for (k, d) in all.iter().enumerate() {
                let key = (10 + k).to_string();
                match tool_text(&m.got[&key][0]).ok().and_then(|s| serde_json::from_str::<Value>(&s).ok()) {
                    None => acc.violation(&ctxr.findings, "C17", viol("mcp-fails", txs, format!("explain_matching failed for {} {}", d.date, d.ticker), "MCP explain_matching", name)),
                    Some(j) => {
                        let mut p: Problems = vec![];
                        let id = format!("explain {} {}", d.date, d.ticker);
                        jexact(&mut p, "mcp-figures", &format!("{id} quantity"), &j["quantity"], d.qty);
                        jmoney(&mut p, "mcp-figures", &format!("{id} proceeds"), &j["proceeds"], &d.net);
                        jmoney(&mut p, "mcp-figures", &format!("{id} total_gain_or_loss"), &j["total_gain_or_loss"], &d.gain);
                        let ms = j["matches"].as_array().cloned().unwrap_or_default();
                        if ms.len() != d.legs.len() {
                            p.push(("mcp-lists", format!("{id}: {} matches, the report has {}", ms.len(), d.legs.len())));
                        }
                        for (jm, l) in ms.iter().zip(d.legs.iter()) {
                            jexact(&mut p, "mcp-figures", &format!("{id} leg quantity"), &jm["quantity"], l.1);
                            jmoney(&mut p, "mcp-figures", &format!("{id} leg allowable_cost"), &jm["allowable_cost"], &l.3);
                            jmoney(&mut p, "mcp-figures", &format!("{id} leg gain_or_loss"), &jm["gain_or_loss"], &l.4);
                        }
                        for (c, dd) in p {
                            acc.violation(&ctxr.findings, "C17", viol(c, txs, dd, "MCP explain_matching", name));
                        }
                    }
                }
            }
            let _ = m.finish();
            acc
        })
        .reduce(Acc::new, Acc::merge);
    acc = Acc::merge(acc, part);
    ctx.require(acc.get("pdf compared") >= 20 && acc.get("front-end processes compared") >= 5, "too few PDF / front-end comparisons");
    ctx.bound = json!({"lattice": "every multiple of 0.005 in [-2.00, +2.00] for gain/proceeds and for cost/average cost (1602 ledgers)", "magnitude_points": if tier == Tier::Quick { 17 } else { 201 }, "pdf_every": pdf_every});
    ctx.alphabets.push(json!({"families": ["gain-lattice", "cost-lattice", "million-gain (+1,000,000.995)", "million-loss (-1,234,567.885)", "fees-lattice", "usd-echo", "quantity with 1..10 decimals", "quantity-of-event (ACCUMULATION/CAPRETURN unit counts and SPLIT/UNSPLIT ratios with 1..10 decimals)", "gain-loss-year (a gain and a loss in one year, every tenth-of-a-penny remainder of each)", "thirds (a disposal in three legs of a third each, sale fee on every half-penny: non-terminating fee shares on the midpoints)", "multi (3 years, 3 rules, dividend)"]}));
    ctx.explanation = "States are reports on a value lattice: ledgers whose gain, proceeds, fees, allowable cost, Section 104 unit cost and closing average cost take every multiple of half a penny in [-2, +2] (and the same around +1,000,000.995 and -1,234,567.885), quantities with 1..10 decimals, USD echoes, a multi-year multi-rule ledger. For each, every figure shown by the plain-text report, the JSON report and the text runs of the compiled PDF (hook verif_text_runs; on every lattice point in the thorough tier) is parsed back and must equal the full-precision value of the TaxReport, either in full or rounded to pence half away from zero, in the stated dress; the lists of years, disposals, legs and positive holdings must coincide. A subset runs through the real CLI and MCP calculate_report/explain_matching. transitions = PDF compiles.".into();
    ctx.assumptions = vec!["'-£0.00' for a negative value that rounds to zero is tolerated".into()];
    ctx.finish(&acc, "model_checking")
}
