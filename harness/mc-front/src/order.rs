//! C16: deterministic, canonically ordered output. Iteration-order explorer over the `verif_map` hook: every
//! traversal of a (former) HashMap in cgt-core asks a schedule for the permutation to use; the explorer enumerates
//! all schedules with at most d non-identity choices (deviation-bounded, like a preemption bound).
use cgt_core::verif_map::{set_schedule, take_log};
use cgt_core::{Config, TaxReport, Transaction};
use mcx::alpha::{self, dsl_text};
use mcx::observe::{all_years_config, order_invariants};
use mcx::proc::{Scratch, run_tool};
use mcx::run::{Acc, Ctx, Input, Tier, Violation, machinery_failure};
use rayon::prelude::*;
use serde_json::{Value, json};
use std::collections::BTreeMap;

fn ledgers() -> Vec<(String, Vec<Transaction>)> {
    let mut out = vec![];
    // L1: 3 securities x 3 tax years, all disposals of a year on one date
    let mut l = vec![];
    for (i, tk) in ["CCC", "AAA", "BBB"].iter().enumerate() {
        l.push(alpha::buy(alpha::date(2021, 1, 4 + i as u32), tk, "100", &format!("{}", 10 + i), "1"));
        for y in [2023, 2021, 2022] {
            l.push(alpha::sell(alpha::date(y, 6, 1), tk, "10", &format!("{}", 12 + i), "0.5"));
        }
    }
    out.push(("3 securities x 3 years, disposals on one date per year".to_string(), l));
    // L2: 5 securities, same-day buys and sells, 30-day repurchases, a split, dividends, two dates per year
    let mut l = vec![];
    for (i, tk) in ["E", "B", "D", "A", "C"].iter().enumerate() {
        l.push(alpha::buy(alpha::date(2020, 2, 3), tk, "50", &format!("{}", 5 + i), "0"));
        l.push(alpha::sell(alpha::date(2022, 4, 5), tk, "5", "9", "0"));
        l.push(alpha::sell(alpha::date(2022, 4, 6), tk, "5", "9.5", "0.25"));
        l.push(alpha::buy(alpha::date(2022, 4, 20), tk, "3", "8", "0"));
        l.push(alpha::dividend(alpha::date(2022, 5, 1), tk, "4", "1"));
        l.push(alpha::sell(alpha::date(2024, 4, 5), tk, "7", "11", "0"));
    }
    l.push(alpha::split(alpha::date(2023, 1, 1), "B", "2"));
    l.push(alpha::capret(alpha::date(2023, 2, 1), "D", "40", "10", "0"));
    out.push(("5 securities, boundary dates, 30-day repurchases, split, capital return, dividends".to_string(), l));
    // L3: 4 securities over 4 years, reversed input order
    let mut l = vec![];
    for (i, tk) in ["Q1", "Q4", "Q2", "Q3"].iter().enumerate() {
        l.push(alpha::buy(alpha::date(2019, 7, 1), tk, "40", &format!("{}", 20 + i), "2"));
        for y in [2019, 2020, 2021, 2022] {
            l.push(alpha::sell(alpha::date(y, 12, 15), tk, "4", &format!("{}", 25 + i), "0"));
        }
    }
    l.reverse();
    out.push(("4 securities x 4 years, reversed input".to_string(), l));
    // L4: tickers that stress the comparator: proper prefixes of one another, digits vs letters
    let mut l = vec![];
    for (i, tk) in ["GOOG", "G", "GOOGL", "GO", "G0"].iter().enumerate() {
        l.push(alpha::buy(alpha::date(2022, 3, 1), tk, "30", &format!("{}", 7 + i), "0"));
        l.push(alpha::sell(alpha::date(2023, 2, 1), tk, "10", &format!("{}", 9 + i), "0"));
        l.push(alpha::sell(alpha::date(2024, 2, 1), tk, "5", &format!("{}", 8 + i), "0.1"));
    }
    out.push(("5 prefix-related tickers (G, G0, GO, GOOG, GOOGL), disposals on shared dates, all still held".to_string(), l));
    // L5: dividend income in five tax years that have no disposal, disposals in two other years
    let mut l = vec![alpha::buy(alpha::date(2018, 5, 1), "DIV", "100", "10", "0")];
    for (i, y) in [2021, 2019, 2023, 2020, 2022].iter().enumerate() {
        l.push(alpha::dividend(alpha::date(*y, 7, 1), "DIV", &format!("{}", 10 + i), "1"));
        l.push(alpha::dividend(alpha::date(*y, 11, 1), "DIV", &format!("{}", 20 + i), "0"));
    }
    l.push(alpha::sell(alpha::date(2018, 9, 1), "DIV", "5", "12", "0"));
    l.push(alpha::sell(alpha::date(2024, 9, 1), "DIV", "5", "12", "0"));
    l.push(alpha::dividend(alpha::date(2024, 10, 1), "DIV", "9", "0"));
    out.push(("dividends in five tax years without disposals, disposals in two other years".to_string(), l));
    // refused ledgers with several possible culprits: which security the error names must not depend on a map's order.
    // (a) four securities whose remaining pool cannot absorb a capital return that the pre-pass lets through (sale
    // 30-day-matched to a dearer repurchase); (b) four securities each with an uncovered sale on one date; (c) four
    // securities each with a capital return exceeding all expenditure
    let mut l = vec![];
    for tk in ["DDD", "BBB", "AAA", "CCC"] {
        l.push(alpha::buy(alpha::date(2020, 1, 6), tk, "100", "1", "0"));
        l.push(alpha::sell(alpha::date(2020, 2, 3), tk, "50", "2", "0"));
        l.push(alpha::buy(alpha::date(2020, 2, 10), tk, "50", "10", "0"));
        l.push(alpha::capret(alpha::date(2020, 6, 1), tk, "100", "300", "0"));
    }
    out.push(("refused: four remaining pools cannot absorb their capital return".to_string(), l));
    let mut l = vec![];
    for tk in ["DDD", "BBB", "AAA", "CCC"] {
        l.push(alpha::buy(alpha::date(2020, 1, 6), tk, "10", "1", "0"));
        l.push(alpha::sell(alpha::date(2020, 2, 3), tk, "50", "2", "0"));
    }
    out.push(("refused: four uncovered sales on one date".to_string(), l));
    let mut l = vec![];
    for tk in ["DDD", "BBB", "AAA", "CCC"] {
        l.push(alpha::buy(alpha::date(2020, 1, 6), tk, "10", "1", "0"));
        l.push(alpha::capret(alpha::date(2020, 6, 1), tk, "10", "500", "0"));
    }
    out.push(("refused: four capital returns exceeding all expenditure".to_string(), l));
    out
}

struct Exec {
    out: String,
    log: Vec<(usize, usize)>,
    report: Option<TaxReport>,
}

fn run(txs: &[Transaction], cfg: &Config, prefix: Vec<usize>) -> Exec {
    set_schedule(prefix);
    let r = std::panic::catch_unwind(std::panic::AssertUnwindSafe(|| cgt_core::calculator::calculate(txs, None, None, cfg)));
    let log = take_log();
    match r {
        Ok(Ok(rep)) => {
            let plain = cgt_formatter_plain::format(&rep);
            let js = serde_json::to_string_pretty(&rep).unwrap_or_default();
            Exec { out: format!("{plain}\n=====JSON=====\n{js}\n=====DEBUG=====\n{:?}", (&rep.tax_years, &rep.holdings)), log, report: Some(rep) }
        }
        Ok(Err(e)) => Exec { out: format!("ERROR {e}"), log, report: None },
        Err(p) => Exec { out: format!("PANIC {}", mcx::observe::panic_msg(p)), log, report: None },
    }
}

fn pdf_text(rep: &TaxReport) -> String {
    match cgt_formatter_pdf::verif_text_runs(rep) {
        Ok(runs) => runs.iter().map(|(p, x, y, t)| format!("{p}|{x:.2}|{y:.2}|{t}")).filter(|l| !l.contains("Generated")).collect::<Vec<_>>().join("\n"),
        Err(e) => format!("PDF-ERROR {e}"),
    }
}

fn plain_transactions_sorted(plain: &str) -> Result<(), String> {
    // lines of the "# TRANSACTIONS" section: "DD/MM/YYYY BUY|SELL qty TICKER @ ..."
    let mut in_sec = false;
    let mut events = false;
    let mut prev: Option<(String, String)> = None;
    for l in plain.lines() {
        if l.starts_with("# ") {
            in_sec = l.trim() == "# TRANSACTIONS" || l.trim() == "# ASSET EVENTS";
            events = l.trim() == "# ASSET EVENTS";
            prev = None;
            continue;
        }
        if !in_sec || l.trim().is_empty() {
            continue;
        }
        let t: Vec<&str> = l.split_whitespace().collect();
        if t.len() < 4 {
            continue;
        }
        let d: Vec<&str> = t[0].split('/').collect();
        if d.len() != 3 {
            continue;
        }
        // "DD/MM/YYYY BUY|SELL qty TICKER @ ..." ; "DD/MM/YYYY CAPRETURN|ACCUMULATION|DIVIDEND|SPLIT|UNSPLIT TICKER ..."
        let key = (format!("{}-{}-{}", d[2], d[1], d[0]), if events { t[2].to_string() } else { t[3].to_string() });
        if let Some(p) = &prev {
            if *p > key {
                return Err(format!("echoed transactions not sorted by date then ticker: {p:?} before {key:?}"));
            }
        }
        prev = Some(key);
    }
    Ok(())
}

/// The MCP front-end: "the same command on the same inputs" must get the same bytes from a fresh process and from a
/// process that has already answered another request. Request alphabet: explain_matching for every disposal of a
/// ledger with sales on both sides of 5/6 April within one calendar year (two securities), and calculate_report for
/// every year filter; every ordered pair (first, second) of requests runs in its own fresh `cgt-tool mcp` process,
/// and the answer to `second` must be byte-identical to the answer it gets alone in a fresh process.
fn mcp_history_cells(ctx: &Ctx, acc: &mut Acc) {
    use mcx::proc::{Mcp, tool_call};
    let ledger = "2023-01-10 BUY VOD 1000 @ 1.00\n2023-01-10 BUY ACME 500 @ 2.00 FEES 3\n2024-03-01 SELL VOD 100 @ 1.50\n2024-04-05 SELL ACME 50 @ 2.50\n2024-04-06 SELL VOD 30 @ 1.40\n2024-06-03 SELL VOD 200 @ 1.20\n2024-06-03 SELL ACME 20 @ 1.90 FEES 1\n2025-03-01 SELL ACME 10 @ 2.20\n2025-04-07 SELL VOD 5 @ 1.10\n";
    let mut reqs: Vec<(String, String, Value)> = vec![];
    for (d, t) in [("2024-03-01", "VOD"), ("2024-04-05", "ACME"), ("2024-04-06", "VOD"), ("2024-06-03", "VOD"), ("2024-06-03", "ACME"), ("2025-03-01", "ACME"), ("2025-04-07", "VOD")] {
        reqs.push((format!("explain {d} {t}"), "explain_matching".into(), json!({"transactions": ledger, "disposal_date": d, "ticker": t})));
    }
    for y in [2023, 2024, 2025] {
        reqs.push((format!("report {y}"), "calculate_report".into(), json!({"transactions": ledger, "year": y})));
    }
    reqs.push(("report all".into(), "calculate_report".into(), json!({"transactions": ledger})));
    let session = |seq: &[usize]| -> Option<Vec<String>> {
        let sc = Scratch::new();
        sc.all_years_config();
        let mut m = Mcp::start(&sc);
        let mut out = vec![];
        for (k, i) in seq.iter().enumerate() {
            let id = json!(10 + k);
            m.send_raw(&tool_call(&id, &reqs[*i].1, reqs[*i].2.clone()));
            if !m.wait_for(&[id.to_string()], std::time::Duration::from_secs(20)) {
                let _ = m.finish();
                return None;
            }
            let mut v = m.got[&id.to_string()][0].clone();
            if let Some(o) = v.as_object_mut() {
                o.remove("id");
            }
            out.push(v.to_string());
        }
        let _ = m.finish();
        Some(out)
    };
    let solo: Vec<Option<Vec<String>>> = (0..reqs.len()).into_par_iter().map(|i| session(&[i])).collect();
    let pairs: Vec<(usize, usize)> = (0..reqs.len()).flat_map(|i| (0..reqs.len()).map(move |j| (i, j))).collect();
    let results: Vec<Option<Vec<String>>> = pairs.par_iter().map(|(i, j)| session(&[*i, *j])).collect();
    for ((i, j), r) in pairs.iter().zip(results.iter()) {
        acc.states += 1;
        acc.validated += 1;
        acc.bump("mcp:two-request-sessions-vs-fresh-process");
        let inp = Input::Json(json!({"requests": [reqs[*i].0, reqs[*j].0], "ledger": ledger}));
        let want = solo[*j].as_ref().map(|v| v[0].clone());
        match (r, want) {
            (Some(got), Some(w)) => {
                if got[1] != w {
                    acc.violation(&ctx.findings, "C16", Violation { clause: "output-differs-between-processes".into(), input: inp, detail: format!("'{}' is answered differently by a process that has answered '{}' before than by a fresh process: {} vs {}", reqs[*j].0, reqs[*i].0, got[1].chars().take(160).collect::<String>(), w.chars().take(160).collect::<String>()), context: json!({"profile": "mcp request pairs"}) });
                } else if got[1].contains("\"error\"") {
                    acc.bump("mcp:pair-second-answer-is-an-error");
                }
            }
            _ => acc.violation(&ctx.findings, "C16", Violation { clause: "output-differs-between-processes".into(), input: inp, detail: "a request got no answer within 20 s".into(), context: json!({"profile": "mcp request pairs"}) }),
        }
    }
}

pub fn c16(tier: Tier) -> i32 {
    let mut ctx = Ctx::new("C16", tier, BTreeMap::new());
    let cfg = all_years_config();
    let (depth, with_pdf_depth) = match tier {
        Tier::Quick => (2usize, 0usize),
        Tier::Thorough => (3, 1),
    };
    let ls = ledgers();
    let ctxr: &Ctx = &ctx;
    let mut acc = ls
        .par_iter()
        .fold(Acc::new, |mut acc, (name, txs)| {
            let base = run(txs, &cfg, vec![]);
            let base2 = run(txs, &cfg, vec![]);
            if base.out != base2.out || base.log != base2.log {
                machinery_failure("replaying the identity schedule twice gives different observations: nondeterminism is not owned");
            }
            let refused = name.starts_with("refused:");
            if base.report.is_none() != refused {
                machinery_failure(&format!("ledger '{name}' is {}: {}", if refused { "accepted although it is meant to be refused" } else { "not accepted" }, base.out.chars().take(300).collect::<String>()));
            }
            let brep_opt = base.report.as_ref();
            acc.states += 1;
            acc.validated += 1;
            acc.add("choice-points-in-identity-execution", base.log.len() as u64);
            acc.add("max-arity", base.log.iter().map(|c| c.1).max().unwrap_or(0) as u64);
            let base_pdf = brep_opt.map(pdf_text).unwrap_or_default();
            if let Some(brep) = brep_opt {
            // stated orders on the base report
            for d in order_invariants(brep) {
                acc.violation(&ctxr.findings, "C16", Violation { clause: d.clause.into(), input: Input::Ledger(txs.clone()), detail: d.detail, context: json!({"profile": name}) });
            }
            if let Err(e) = plain_transactions_sorted(&cgt_formatter_plain::format(brep)) {
                acc.violation(&ctxr.findings, "C16", Violation { clause: "transactions-ordered".into(), input: Input::Ledger(txs.clone()), detail: e, context: json!({"profile": name}) });
            }
            // the same lines in other input orders (identity schedule): as given but stably sorted by date (a day's
            // securities stay in their written, non-alphabetical order), by date with securities descending, and
            // reversed: the stated orders must hold for each, and the text report must not depend on the order
            let base_plain = cgt_formatter_plain::format(brep);
            let mut by_date = txs.clone();
            by_date.sort_by_key(|t| t.date);
            let mut by_date_desc = txs.clone();
            by_date_desc.sort_by(|a, b| (a.date, &b.ticker).cmp(&(b.date, &a.ticker)));
            let mut reversed = txs.clone();
            reversed.reverse();
            for (label, v) in [("sorted by date, securities as written", by_date), ("sorted by date, securities descending", by_date_desc), ("reversed", reversed)] {
                let e = run(&v, &cfg, vec![]);
                acc.states += 1;
                acc.validated += 1;
                acc.bump("input-order-variants");
                let Some(r) = &e.report else {
                    acc.violation(&ctxr.findings, "C16", Violation { clause: "output-depends-on-input-order".into(), input: Input::Ledger(v.clone()), detail: format!("the ledger is refused in the order '{label}': {}", e.out.chars().take(200).collect::<String>()), context: json!({"profile": name}) });
                    continue;
                };
                for d in order_invariants(r) {
                    acc.violation(&ctxr.findings, "C16", Violation { clause: d.clause.into(), input: Input::Ledger(v.clone()), detail: d.detail, context: json!({"profile": name, "input_order": label}) });
                }
                let plain = cgt_formatter_plain::format(r);
                if let Err(m) = plain_transactions_sorted(&plain) {
                    acc.violation(&ctxr.findings, "C16", Violation { clause: "transactions-ordered".into(), input: Input::Ledger(v.clone()), detail: m, context: json!({"profile": name, "input_order": label}) });
                } else if plain != base_plain {
                    let first_diff = plain.lines().zip(base_plain.lines()).find(|(a, b)| a != b).map(|(a, b)| format!("{a:?} vs {b:?}")).unwrap_or_default();
                    acc.violation(&ctxr.findings, "C16", Violation { clause: "output-depends-on-input-order".into(), input: Input::Ledger(v.clone()), detail: format!("the text report differs when the same lines are given in the order '{label}': {first_diff}"), context: json!({"profile": name}) });
                }
            }
            } else {
                // a refused ledger: the error text is the output compared under every schedule below (which culprit it
                // names may follow the order of the input lines — another input — but not a map's iteration order)
                acc.bump("refused-ledgers-explored");
            }
            let mut distinct: std::collections::BTreeSet<String> = std::collections::BTreeSet::new();
            distinct.insert(base.out.clone());
            let mut frontier: Vec<Vec<usize>> = vec![vec![]];
            // ledgers whose traversals have 5 or more entries (arity 120) are explored one level less deep
            let max_arity = base.log.iter().map(|c| c.1).max().unwrap_or(0);
            let depth = if max_arity > 24 { depth.saturating_sub(1).max(1) } else { depth };
            acc.bump(&format!("ledgers-explored-to-{depth}-deviations"));
            for d in 1..=depth {
                let mut next = vec![];
                for pre in &frontier {
                    let e0 = run(txs, &cfg, pre.clone());
                    for pos in pre.len()..e0.log.len() {
                        for alt in 1..e0.log[pos].1 {
                            let mut p: Vec<usize> = e0.log[..pos].iter().map(|c| c.0).collect();
                            p.push(alt);
                            let e = run(txs, &cfg, p.clone());
                            acc.states += 1;
                            acc.validated += 1;
                            acc.bump("transitions");
                            acc.bump(&format!("schedules-with-{d}-deviations"));
                            let mut differs = e.out != base.out;
                            let mut what = "plain text / JSON / full-precision report";
                            if !differs && d <= with_pdf_depth {
                                if let Some(r) = &e.report {
                                    acc.bump("pdf-text-compared");
                                    if pdf_text(r) != base_pdf {
                                        differs = true;
                                        what = "PDF text runs";
                                    }
                                }
                            }
                            if differs {
                                distinct.insert(e.out.clone());
                                // replay the failing schedule once more before believing it
                                let again = run(txs, &cfg, p.clone());
                                if again.out != e.out {
                                    machinery_failure("a failing schedule does not reproduce");
                                }
                                let first_diff = e.out.lines().zip(base.out.lines()).find(|(a, b)| a != b).map(|(a, b)| format!("{a:?} vs {b:?}")).unwrap_or_default();
                                acc.violation(&ctxr.findings, "C16", Violation { clause: "output-depends-on-iteration-order".into(), input: Input::Ledger(txs.clone()), detail: format!("{what} differ from the identity-order execution under schedule {p:?}: {first_diff}"), context: json!({"profile": name, "schedule": p}) });
                            }
                            next.push(p);
                        }
                    }
                }
                frontier = next;
            }
            acc.add("distinct-outputs", distinct.len() as u64);
            acc.sample(txs.len(), || json!({"ledger": dsl_text(txs), "identity_schedule_log": base.log}));
            acc
        })
        .reduce(Acc::new, Acc::merge);
    // free-running processes (fresh random hash seeds): a sample, complementary to the exhaustive explorer above
    if mcx::proc::tool_exists() {
        let runs = if tier == Tier::Quick { 12 } else { 40 };
        // refused ledgers: exit code and error text of repeated fresh processes
        for (name, txs) in ls.iter().filter(|(n, _)| n.starts_with("refused:")) {
            let sc = Scratch::new();
            sc.all_years_config();
            sc.write("in.cgt", dsl_text(txs).as_bytes());
            let outs: Vec<(Option<i32>, Vec<u8>, Vec<u8>)> = (0..runs * 2).into_par_iter().map(|_| run_tool(&["report", "in.cgt"], &sc, std::time::Duration::from_secs(30))).map(|o| (o.code, o.stdout, o.stderr)).collect();
            acc.states += (runs * 2) as u64;
            acc.validated += (runs * 2) as u64;
            acc.bump("cli:repeated-process-runs-refused-ledger");
            if outs.iter().any(|o| o != &outs[0]) || outs[0].2.is_empty() || !outs[0].1.is_empty() {
                let distinct: std::collections::BTreeSet<String> = outs.iter().map(|o| String::from_utf8_lossy(&o.2).chars().take(120).collect()).collect();
                acc.violation(&ctx.findings, "C16", Violation { clause: "output-differs-between-processes".into(), input: Input::Ledger(txs.clone()), detail: format!("`cgt-tool report in.cgt` on a refused ledger gave {} different error texts in {} runs (or no error text): {:?}", distinct.len(), runs * 2, distinct), context: json!({"profile": name}) });
            }
        }
        let ls_ok: Vec<(String, Vec<Transaction>)> = ls.iter().filter(|(n, _)| !n.starts_with("refused:")).cloned().collect();
        for (name, txs) in &ls_ok {
            let sc = Scratch::new();
            sc.all_years_config();
            sc.write("in.cgt", dsl_text(txs).as_bytes());
            for args in [vec!["report", "in.cgt"], vec!["report", "in.cgt", "--format", "json"], vec!["parse", "in.cgt"]] {
                let outs: Vec<Vec<u8>> = (0..runs).into_par_iter().map(|_| run_tool(&args, &sc, std::time::Duration::from_secs(30)).stdout).collect();
                acc.states += runs as u64;
                acc.validated += runs as u64;
                acc.bump("cli:repeated-process-runs");
                if outs.iter().any(|o| o != &outs[0]) || outs[0].is_empty() {
                    acc.violation(&ctx.findings, "C16", Violation { clause: "output-differs-between-processes".into(), input: Input::Ledger(txs.clone()), detail: format!("`cgt-tool {}` printed different bytes in {runs} runs", args.join(" ")), context: json!({"profile": name}) });
                }
            }
        }
        // the same ledgers spread over four input files (round robin over the lines): the files are read in
        // command-line order, so every run must print the bytes printed for their concatenation in that order
        for (name, txs) in &ls_ok {
            let sc = Scratch::new();
            sc.all_years_config();
            let mut parts = vec![String::new(); 4];
            for (i, t) in txs.iter().enumerate() {
                parts[i % 4].push_str(&mcx::alpha::dsl_line(t));
                parts[i % 4].push('\n');
            }
            let files = ["p0.cgt", "p1.cgt", "p2.cgt", "p3.cgt"];
            for (f, p) in files.iter().zip(&parts) {
                sc.write(f, p.as_bytes());
            }
            sc.write("cat.cgt", parts.concat().as_bytes());
            for (pre, post) in [(vec!["report"], vec![]), (vec!["report"], vec!["--format", "json"]), (vec!["parse"], vec![])] {
                let mut args: Vec<&str> = pre.clone();
                args.extend(files.iter());
                args.extend(post.iter());
                let mut one: Vec<&str> = pre.clone();
                one.push("cat.cgt");
                one.extend(post.iter());
                let reference = run_tool(&one, &sc, std::time::Duration::from_secs(30)).stdout;
                let outs: Vec<Vec<u8>> = (0..runs).into_par_iter().map(|_| run_tool(&args, &sc, std::time::Duration::from_secs(30)).stdout).collect();
                acc.states += runs as u64;
                acc.validated += runs as u64;
                acc.bump("cli:repeated-process-runs");
                acc.bump("cli:repeated-multi-file-runs");
                if outs.iter().any(|o| o != &reference) || reference.is_empty() {
                    let distinct: std::collections::BTreeSet<&Vec<u8>> = outs.iter().collect();
                    acc.violation(&ctx.findings, "C16", Violation { clause: "output-differs-between-processes".into(), input: Input::Ledger(txs.clone()), detail: format!("`cgt-tool {}` printed {} different outputs in {runs} runs, or not the output for the files' concatenation in command-line order", args.join(" "), distinct.len()), context: json!({"profile": name, "files": parts}) });
                }
            }
        }
        mcp_history_cells(&ctx, &mut acc);
        // --fx-folder with a rates file that lists one currency several times (USD, usd, Usd — codes are matched
        // case-insensitively — with different rates, next to EUR and eur): whichever row the loader lets win, every
        // process must make the same choice (a sample of hash seeds, like the cells above)
        {
            let sc = Scratch::new();
            sc.all_years_config();
            let mut x = String::from("<?xml version=\"1.0\" encoding=\"UTF-8\"?>\n<exchangeRateMonthList Period=\"01/Mar/2024 to 31/Mar/2024\">\n");
            for (c, r) in [("USD", "1.25"), ("EUR", "1.1"), ("usd", "1.6"), ("Usd", "2.0"), ("eur", "1.2"), ("JPY", "190.5"), ("uSD", "2.5"), ("Eur", "1.3")] {
                x += &format!("  <exchangeRate>\n    <countryName>N</countryName>\n    <countryCode>NN</countryCode>\n    <currencyName>C</currencyName>\n    <currencyCode>{c}</currencyCode>\n    <rateNew>{r}</rateNew>\n  </exchangeRate>\n");
            }
            x += "</exchangeRateMonthList>\n";
            std::fs::create_dir_all(sc.path("fx")).ok();
            sc.write("fx/2024-03.xml", x.as_bytes());
            let ledger = "2024-03-01 BUY X 10 @ 100 USD FEES 1 EUR\n2024-03-20 SELL X 4 @ 150 USD FEES 2 EUR\n2024-03-21 DIVIDEND X TOTAL 10 EUR TAX 1 USD\n";
            sc.write("fxin.cgt", ledger.as_bytes());
            for args in [vec!["report", "fxin.cgt", "--fx-folder", "fx"], vec!["report", "fxin.cgt", "--fx-folder", "fx", "--format", "json"]] {
                let outs: Vec<(Option<i32>, Vec<u8>)> = (0..runs * 2).into_par_iter().map(|_| { let o = run_tool(&args, &sc, std::time::Duration::from_secs(30)); (o.code, o.stdout) }).collect();
                acc.states += (runs * 2) as u64;
                acc.validated += (runs * 2) as u64;
                acc.bump("cli:repeated-process-runs");
                acc.bump("cli:repeated-fx-folder-runs");
                if outs[0].0 == Some(0) && !outs[0].1.is_empty() {
                    acc.bump("cli:repeated-fx-folder-runs-with-report");
                }
                if outs.iter().any(|o| o != &outs[0]) {
                    let distinct: std::collections::BTreeSet<&(Option<i32>, Vec<u8>)> = outs.iter().collect();
                    acc.violation(&ctx.findings, "C16", Violation { clause: "output-differs-between-processes".into(), input: Input::Text(format!("{ledger}\n--- fx/2024-03.xml ---\n{x}")), detail: format!("`cgt-tool {}` gave {} different results in {} runs", args.join(" "), distinct.len(), runs * 2), context: json!({"profile": "fx-folder with a currency listed several times"}) });
                }
            }
        }
        // --output: what a command leaves at the output path must not depend on what the path held before (a fresh
        // path, a path holding a longer file, a path holding a shorter file), and must equal what it prints to stdout (up to the final newline)
        {
            let (_, txs) = &ls[1];
            let sc = Scratch::new();
            sc.all_years_config();
            sc.write("in.cgt", dsl_text(txs).as_bytes());
            for fmt in ["plain", "json"] {
                let stdout = run_tool(&["report", "in.cgt", "--format", fmt, "--year", "2022"], &sc, std::time::Duration::from_secs(30)).stdout;
                let long: Vec<u8> = std::iter::repeat_n(b'#', stdout.len() * 3 + 100).collect();
                let mut left = vec![];
                for (label, before) in [("fresh", None), ("longer", Some(long.clone())), ("shorter", Some(b"x\n".to_vec()))] {
                    let name = format!("out-{fmt}-{label}.txt");
                    if let Some(b) = &before {
                        sc.write(&name, b);
                    }
                    let o = run_tool(&["report", "in.cgt", "--format", fmt, "--year", "2022", "--output", &name], &sc, std::time::Duration::from_secs(30));
                    acc.states += 1;
                    acc.validated += 1;
                    acc.bump("cli:--output onto existing files");
                    left.push((label, o.ok(), std::fs::read(sc.path(&name)).unwrap_or_default()));
                }
                // (stdout may end in one more newline than the file: that is presentation, not content)
                let trim = |b: &[u8]| -> Vec<u8> {
                    let mut v = b.to_vec();
                    while v.last() == Some(&b'\n') {
                        v.pop();
                    }
                    v
                };
                if left.iter().any(|(_, ok, bytes)| !*ok || trim(bytes) != trim(&stdout) || *bytes != left[0].2) || stdout.is_empty() {
                    let sizes: Vec<(&str, bool, usize)> = left.iter().map(|(l, ok, b)| (*l, *ok, b.len())).collect();
                    acc.violation(&ctx.findings, "C16", Violation { clause: "output-differs-between-processes".into(), input: Input::Ledger(txs.clone()), detail: format!("`cgt-tool report in.cgt --format {fmt} --year 2022 --output <path>`: stdout is {} bytes, the output file holds (previous content, exit ok, bytes) {sizes:?}", stdout.len()), context: json!({"profile": "--output"}) });
                }
            }
        }
        // configuration as an input: an override file that spells one tax year in several ways (TOML keys "2023",
        // "02023", "002023"): whichever entry wins, it must be the same in every process
        {
            let sc = Scratch::new();
            sc.write("config.toml", b"[exemptions]\n\"02023\" = 111\n\"2023\" = 222\n\"002023\" = 333\n\"0002023\" = 444\n");
            sc.write("in.cgt", b"2023-05-01 BUY X 10 @ 10\n2023-06-01 SELL X 4 @ 12\n");
            let args = ["report", "in.cgt", "--format", "json"];
            let n = runs.max(16);
            let outs: Vec<Vec<u8>> = (0..n).into_par_iter().map(|_| run_tool(&args, &sc, std::time::Duration::from_secs(30)).stdout).collect();
            acc.states += n as u64;
            acc.validated += n as u64;
            acc.bump("cli:repeated-process-runs");
            acc.bump("cli:repeated-config-runs");
            let distinct: std::collections::BTreeSet<&Vec<u8>> = outs.iter().collect();
            if distinct.len() != 1 || outs[0].is_empty() {
                acc.violation(&ctx.findings, "C16", Violation { clause: "output-differs-between-processes".into(), input: Input::Json(json!({"config.toml": "[exemptions] \"02023\" = 111, \"2023\" = 222, \"002023\" = 333, \"0002023\" = 444", "ledger": "2023-05-01 BUY X 10 @ 10 / 2023-06-01 SELL X 4 @ 12"})), detail: format!("`cgt-tool report in.cgt --format json` with this ./config.toml printed {} different outputs in {n} runs", distinct.len()), context: json!({"profile": "config"}) });
            }
        }
        // the converter: an export producing every kind of warning several times (unmatched cancels, unknown actions,
        // withholdings without dividend), so that an unsorted map traversal shows as differing warning order
        let mut rows = vec![];
        for (i, sym) in ["AAA", "BBB", "CCC", "DDD", "EEE", "FFF"].iter().enumerate() {
            rows.push(json!({"Date": format!("01/{:02}/2024", 10 + i), "Action": "Cancel Sell", "Symbol": sym, "Description": "cxl", "Quantity": format!("{}", 3 + i), "Price": "$10", "Fees & Comm": "", "Amount": ""}));
            rows.push(json!({"Date": format!("02/{:02}/2024", 10 + i), "Action": "NRA Withholding", "Symbol": sym, "Description": "nra", "Quantity": "", "Price": "", "Fees & Comm": "", "Amount": "-$1.50"}));
            rows.push(json!({"Date": format!("03/{:02}/2024", 10 + i), "Action": format!("Mystery {i}"), "Symbol": sym, "Description": "?", "Quantity": "", "Price": "", "Fees & Comm": "", "Amount": ""}));
            rows.push(json!({"Date": format!("04/{:02}/2024", 10 + i), "Action": "Buy", "Symbol": sym, "Description": "b", "Quantity": "10", "Price": "$5", "Fees & Comm": "$1", "Amount": ""}));
        }
        let export = json!({"BrokerageTransactions": rows}).to_string();
        let sc = Scratch::new();
        sc.write("tx.json", export.as_bytes());
        let outs: Vec<(Vec<u8>, Vec<u8>, Option<i32>)> = (0..runs)
            .into_par_iter()
            .map(|_| {
                let o = run_tool(&["convert", "schwab", "tx.json"], &sc, std::time::Duration::from_secs(30));
                let strip = |b: &[u8]| String::from_utf8_lossy(b).lines().filter(|l| !l.starts_with("# Converted:")).collect::<Vec<_>>().join("\n").into_bytes();
                (strip(&o.stdout), o.stderr.clone(), o.code)
            })
            .collect();
        acc.states += runs as u64;
        acc.validated += runs as u64;
        acc.bump("cli:repeated-process-runs");
        acc.bump("cli:repeated-convert-runs");
        if outs.iter().any(|o| o != &outs[0]) || outs[0].2 != Some(0) || outs[0].1.is_empty() {
            let distinct: std::collections::BTreeSet<&(Vec<u8>, Vec<u8>, Option<i32>)> = outs.iter().collect();
            acc.violation(&ctx.findings, "C16", Violation { clause: "output-differs-between-processes".into(), input: Input::Json(serde_json::from_str(&export).unwrap_or(Value::Null)), detail: format!("`cgt-tool convert schwab` produced {} different (stdout, stderr) outputs in {runs} runs (exit {:?})", distinct.len(), outs[0].2), context: json!({"profile": "convert"}) });
        }
    } else {
        machinery_failure("cgt-tool binary missing (run ./setup.sh)");
    }
    ctx.require(acc.get("choice-points-in-identity-execution") >= 12, "too few choice points: the hook is not exercised");
    ctx.require(acc.get("transitions") > 50, "too few schedules explored");
    ctx.require(!mcx::proc::tool_exists() || acc.get("mcp:two-request-sessions-vs-fresh-process") > 100 || acc.viol_total > 0, "the MCP request-pair cell did not run");
    ctx.require(!mcx::proc::tool_exists() || acc.get("cli:repeated-fx-folder-runs-with-report") > 0 || acc.viol_total > 0, "the --fx-folder cell produced no report");
    ctx.require(acc.get("distinct-outputs") == ls.len() as u64 || acc.viol_total > 0, "distinct-output accounting inconsistent");
    ctx.bound = json!({"max_non_identity_choices": depth, "ledgers": ls.len(), "pdf_text_compared_up_to_deviations": with_pdf_depth});
    ctx.alphabets.push(json!({"ledgers": ls.iter().map(|(n, l)| json!({"name": n, "lines": l.len()})).collect::<Vec<_>>(), "choice": "at every traversal of a map in matcher/mod.rs, matcher/bed_and_breakfast.rs and calculator.rs the permutation of the (first five) entries is chosen by the schedule"}));
    ctx.explanation = "States are schedules (sequences of permutation choices at the map traversals of one execution). With the `verif-hooks` feature every HashMap of cgt-core's matcher and calculator is a BTreeMap wrapper whose traversals ask a thread-local schedule for the permutation to use. Each ledger is executed under the identity schedule (replayed twice: identical observations required), then under EVERY schedule with at most d non-identity choices, exactly like a preemption-bounded scheduler; plain text, JSON and the full-precision report (and the PDF text runs up to the stated depth) must be byte-identical to the identity execution, so the number of distinct outputs per ledger must be 1. Stated orders (years, disposals, holdings, echoed transactions) are checked on the report. Repeated free-running CLI processes (fresh hash seeds) are an additional sample, not part of the exhaustive claim.".into();
    ctx.assumptions = vec!["only hash-order nondeterminism inside cgt-core is owned by the hook; the converter and formatters traverse no maps (checked by reading)".into(), "each traversal chooses independently (a superset of what one HashMap instance can do)".into()];
    let _ = Value::Null;
    ctx.finish(&acc, "model_checking")
}
