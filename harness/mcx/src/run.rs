//! Run context: accumulators, violation records, known-finding classification, evidence and replay files.
use crate::alpha::dsl_text;
use cgt_core::Transaction;
use serde_json::{Value, json};
use std::collections::BTreeMap;
use std::path::PathBuf;
use std::time::Instant;

pub const VERIF_DIR: &str = "/verif";

#[derive(Clone, Copy, Debug, PartialEq, Eq)]
pub enum Tier {
    Quick,
    Thorough,
}
impl Tier {
    pub fn name(&self) -> &'static str {
        match self {
            Tier::Quick => "quick",
            Tier::Thorough => "thorough",
        }
    }
}

/// What a violation was observed on (used by known-finding predicates and for replay files).
#[derive(Clone, Debug)]
pub enum Input {
    Ledger(Vec<Transaction>),
    Text(String),
    Json(Value),
}
impl Input {
    pub fn to_json(&self) -> Value {
        match self {
            Input::Ledger(t) => json!({"kind":"ledger","dsl": dsl_text(t)}),
            Input::Text(s) => json!({"kind":"text","text": s}),
            Input::Json(v) => json!({"kind":"json","value": v}),
        }
    }
    pub fn size(&self) -> usize {
        match self {
            Input::Ledger(t) => t.len(),
            Input::Text(s) => s.len(),
            Input::Json(v) => v.to_string().len(),
        }
    }
}

#[derive(Clone, Debug)]
pub struct Violation {
    pub clause: String,
    pub input: Input,
    pub detail: String,
    /// further context (profile, variant, year filter, …)
    pub context: Value,
}

pub type Predicate = fn(&Input, &Value) -> bool;

#[derive(Clone, Debug)]
pub struct Finding {
    pub id: String,
    pub property: String,
    pub status: String, // "open" | "fixed"
    pub clauses: Vec<String>,
    pub predicate: String,
    pub what: String,
}

pub struct Findings {
    pub list: Vec<Finding>,
    pub preds: BTreeMap<String, Predicate>,
    pub fixed_lines: Vec<String>,
}
impl Findings {
    pub fn load(prop: &str, preds: BTreeMap<String, Predicate>) -> Findings {
        let path = format!("{VERIF_DIR}/known_findings.json");
        let mut list = Vec::new();
        let mut fixed_lines = Vec::new();
        if let Ok(s) = std::fs::read_to_string(&path) {
            let v: Value = serde_json::from_str(&s).unwrap_or_else(|e| machinery_failure(&format!("known_findings.json invalid: {e}")));
            for f in v["findings"].as_array().cloned().unwrap_or_default() {
                let status = f["status"].as_str().unwrap_or("open").to_string();
                if status == "fixed" {
                    fixed_lines.push(f["line"].as_str().unwrap_or("").to_string());
                    continue;
                }
                let fd = Finding {
                    id: f["id"].as_str().unwrap_or("?").to_string(),
                    property: f["property"].as_str().unwrap_or("?").to_string(),
                    status,
                    clauses: f["clauses"].as_array().map(|a| a.iter().filter_map(|x| x.as_str().map(String::from)).collect()).unwrap_or_default(),
                    predicate: f["predicate"].as_str().unwrap_or("").to_string(),
                    what: f["what"].as_str().unwrap_or("").to_string(),
                };
                if fd.property != prop {
                    continue;
                }
                if !preds.contains_key(&fd.predicate) {
                    machinery_failure(&format!("known_findings.json: finding {} names unknown predicate '{}'", fd.id, fd.predicate));
                }
                list.push(fd);
            }
        }
        Findings { list, preds, fixed_lines }
    }
    pub fn classify(&self, prop: &str, v: &Violation) -> Option<&Finding> {
        self.list.iter().find(|f| {
            f.property == prop && f.status == "open" && f.clauses.iter().any(|c| c == &v.clause) && self.preds.get(&f.predicate).map(|p| p(&v.input, &v.context)).unwrap_or(false)
        })
    }
}

pub fn machinery_failure(msg: &str) -> ! {
    eprintln!("MACHINERY-FAILURE: {msg}");
    println!("MACHINERY-FAILURE: {msg}");
    std::process::exit(2);
}

const KEEP: usize = 40;

/// Mergeable accumulator used by all explorations.
#[derive(Default)]
pub struct Acc {
    pub states: u64,
    pub validated: u64,
    pub hist: BTreeMap<String, u64>,
    pub viol: Vec<Violation>,
    pub viol_total: u64,
    pub known: BTreeMap<String, (u64, Option<Violation>)>,
    pub samples: Vec<Value>,
    pub deepest: Option<(usize, Value)>,
}
impl Acc {
    pub fn new() -> Acc {
        Acc::default()
    }
    pub fn bump(&mut self, k: &str) {
        *self.hist.entry(k.to_string()).or_insert(0) += 1;
    }
    pub fn add(&mut self, k: &str, n: u64) {
        *self.hist.entry(k.to_string()).or_insert(0) += n;
    }
    pub fn get(&self, k: &str) -> u64 {
        self.hist.get(k).copied().unwrap_or(0)
    }
    pub fn sample(&mut self, depth: usize, v: impl FnOnce() -> Value) {
        let need_sample = self.samples.len() < 3;
        let need_deep = self.deepest.as_ref().map(|(d, _)| depth > *d).unwrap_or(true);
        if need_sample || need_deep {
            let val = v();
            if need_sample {
                self.samples.push(val.clone());
            }
            if need_deep {
                self.deepest = Some((depth, val));
            }
        }
    }
    pub fn violation(&mut self, f: &Findings, prop: &str, v: Violation) {
        if let Some(fd) = f.classify(prop, &v) {
            let key = format!("known:{}|{}", fd.id, v.clause);
            *self.hist.entry(key).or_insert(0) += 1;
            let e = self.known.entry(fd.id.clone()).or_insert((0, None));
            e.0 += 1;
            let smaller = e.1.as_ref().map(|o| v.input.size() < o.input.size()).unwrap_or(true);
            if smaller {
                e.1 = Some(v);
            }
            return;
        }
        self.viol_total += 1;
        let key = format!("violation:{}|{}|{}", v.clause, v.context.get("variant").and_then(|x| x.as_str()).unwrap_or("-"), v.context.get("profile").and_then(|x| x.as_str()).unwrap_or("-"));
        self.bump(&key);
        self.keep(v);
    }
    fn vkey(v: &Violation) -> String {
        format!("{}|{}|{}", v.clause, v.context.get("variant").and_then(|x| x.as_str()).unwrap_or("-"), v.context.get("profile").and_then(|x| x.as_str()).unwrap_or("-"))
    }
    /// keep at most 3 smallest witnesses per (clause, variant, profile), at most KEEP keys*3 overall
    fn keep(&mut self, v: Violation) {
        let k = Self::vkey(&v);
        let same: Vec<usize> = self.viol.iter().enumerate().filter(|(_, x)| Self::vkey(x) == k).map(|(i, _)| i).collect();
        if same.len() < 3 {
            if self.viol.len() < KEEP * 3 {
                self.viol.push(v);
            }
            return;
        }
        if let Some(&i) = same.iter().max_by_key(|&&i| self.viol[i].input.size()) {
            if v.input.size() < self.viol[i].input.size() {
                self.viol[i] = v;
            }
        }
    }
    pub fn merge(mut a: Acc, b: Acc) -> Acc {
        a.states += b.states;
        a.validated += b.validated;
        for (k, n) in b.hist {
            *a.hist.entry(k).or_insert(0) += n;
        }
        a.viol_total += b.viol_total;
        for v in b.viol {
            a.keep(v);
        }
        for (k, (n, w)) in b.known {
            let e = a.known.entry(k).or_insert((0, None));
            e.0 += n;
            match (&e.1, w) {
                (None, w) => e.1 = w,
                (Some(o), Some(w)) if w.input.size() < o.input.size() => e.1 = Some(w),
                _ => {}
            }
        }
        for s in b.samples {
            if a.samples.len() < 3 {
                a.samples.push(s);
            }
        }
        match (&a.deepest, b.deepest) {
            (None, d) => a.deepest = d,
            (Some((da, _)), Some((db, v))) if db > *da => a.deepest = Some((db, v)),
            _ => {}
        }
        a
    }
}

pub struct Ctx {
    pub prop: String,
    pub tier: Tier,
    pub seed: i64,
    pub start: Instant,
    pub findings: Findings,
    pub bound: Value,
    pub alphabets: Vec<Value>,
    pub assumptions: Vec<String>,
    pub explanation: String,
    pub exhaustive: bool,
    pub extra: serde_json::Map<String, Value>,
}

impl Ctx {
    pub fn new(prop: &str, tier: Tier, preds: BTreeMap<String, Predicate>) -> Ctx {
        let seed = std::env::var("VERIF_SEED").ok().and_then(|s| s.parse().ok()).unwrap_or(0);
        Ctx {
            prop: prop.to_string(),
            tier,
            seed,
            start: Instant::now(),
            findings: Findings::load(prop, preds),
            bound: Value::Null,
            alphabets: vec![],
            assumptions: vec![],
            explanation: String::new(),
            exhaustive: true,
            extra: serde_json::Map::new(),
        }
    }
    /// Vacuity / sanity assertion: failure is a machinery failure (exit 2), never a verdict.
    pub fn require(&self, cond: bool, msg: &str) {
        if !cond {
            machinery_failure(&format!("[{}] vacuity/sanity assertion failed: {msg}", self.prop));
        }
    }

    /// Write evidence + replays, print verdict lines, return the process exit code.
    pub fn finish(&self, acc: &Acc, level: &str) -> i32 {
        let wall = self.start.elapsed().as_secs_f64();
        // VERIF_OUT_DIR (never set by a registered command) redirects evidence and replays of side runs — seeded
        // changes, mutants, background thorough runs — so that they cannot overwrite the unchanged tree's evidence
        let out_root = std::env::var("VERIF_OUT_DIR").unwrap_or_else(|_| VERIF_DIR.to_string());
        let replay_dir = PathBuf::from(format!("{out_root}/replays"));
        let _ = std::fs::create_dir_all(&replay_dir);
        // remove stale replays of this property
        if let Ok(rd) = std::fs::read_dir(&replay_dir) {
            for e in rd.flatten() {
                let n = e.file_name().to_string_lossy().to_string();
                if n.starts_with(&format!("{}-", self.prop)) {
                    let _ = std::fs::remove_file(e.path());
                }
            }
        }
        let mut viol_sorted: Vec<&Violation> = acc.viol.iter().collect();
        viol_sorted.sort_by_key(|v| (v.input.size(), v.clause.clone(), v.input.to_json().to_string()));
        // one (smallest) witness per (clause, variant, profile) first, then the rest
        let mut seen = std::collections::BTreeSet::new();
        let (mut firsts, mut rest): (Vec<&Violation>, Vec<&Violation>) = (vec![], vec![]);
        for v in viol_sorted {
            if seen.insert(Acc::vkey(v)) { firsts.push(v) } else { rest.push(v) }
        }
        firsts.extend(rest);
        let viol_sorted = firsts;
        let mut replay_paths = vec![];
        for (i, v) in viol_sorted.iter().take(30).enumerate() {
            let p = replay_dir.join(format!("{}-{:03}.json", self.prop, i + 1));
            let body = json!({
                "property": self.prop, "tier": self.tier.name(), "clause": v.clause, "input": v.input.to_json(),
                "context": v.context, "detail": v.detail,
            });
            let _ = std::fs::write(&p, serde_json::to_string_pretty(&body).unwrap_or_default());
            replay_paths.push(p);
        }
        let mut known_json = serde_json::Map::new();
        for (id, (n, w)) in &acc.known {
            let fd = self.findings.list.iter().find(|f| &f.id == id);
            println!(
                "KNOWN-FINDING: property={} {} {} ({} states in this run)",
                self.prop,
                id,
                fd.map(|f| f.what.as_str()).unwrap_or(""),
                n
            );
            known_json.insert(id.clone(), json!({"count": n, "smallest_witness": w.as_ref().map(|v| json!({"clause": v.clause, "input": v.input.to_json(), "detail": v.detail}))}));
        }
        let mut samples: Vec<Value> = acc.samples.clone();
        if let Some((d, v)) = &acc.deepest {
            samples.push(json!({"deepest_state_depth": d, "state": v}));
        }
        if samples.is_empty() {
            samples.push(json!("(no sample recorded)"));
        }
        let mut cov = serde_json::Map::new();
        cov.insert("states".into(), json!(acc.states));
        cov.insert("transitions".into(), json!(acc.get("transitions").max(acc.states.saturating_sub(1)).max(1)));
        cov.insert("traces_validated_against_impl".into(), json!(acc.validated));
        cov.insert("samples".into(), json!(samples));
        cov.insert("exhaustive".into(), json!(self.exhaustive));
        cov.insert("bound_completed".into(), self.bound.clone());
        cov.insert("alphabets".into(), json!(self.alphabets));
        cov.insert("outcome_histogram".into(), json!(acc.hist));
        cov.insert("explanation".into(), json!(self.explanation));
        cov.insert("known_findings_hit".into(), Value::Object(known_json));
        cov.insert("evaluations".into(), json!(acc.states));
        cov.insert("distinct_nontrivial".into(), json!(acc.validated));
        cov.insert("rule".into(), json!("every state is a distinct canonical input enumerated exactly once; non-trivial = the oracle compared the implementation's output with the reference/twin on it"));
        for (k, v) in &self.extra {
            cov.insert(k.clone(), v.clone());
        }
        let ev = json!({
            "property_id": self.prop,
            "tier": self.tier.name(),
            "seed": self.seed,
            "level": level,
            "coverage": Value::Object(cov),
            "assumptions": self.assumptions,
            "wall_s": wall,
            "violations": acc.viol_total,
        });
        let evdir = format!("{out_root}/evidence");
        let _ = std::fs::create_dir_all(&evdir);
        let evp = format!("{evdir}/{}.json", self.prop);
        if let Err(e) = std::fs::write(&evp, serde_json::to_string_pretty(&ev).unwrap_or_default()) {
            machinery_failure(&format!("cannot write evidence {evp}: {e}"));
        }
        println!(
            "[{}] tier={} states={} validated={} violations={} known_finding_states={} wall={:.1}s",
            self.prop,
            self.tier.name(),
            acc.states,
            acc.validated,
            acc.viol_total,
            acc.known.values().map(|x| x.0).sum::<u64>(),
            wall
        );
        for (k, n) in &acc.hist {
            println!("    {k}: {n}");
        }
        if acc.viol_total > 0 {
            for (v, p) in viol_sorted.iter().zip(replay_paths.iter()) {
                println!("VIOLATION property={} replay={}", self.prop, p.display());
                println!("    clause={} detail={}", v.clause, v.detail.chars().take(400).collect::<String>());
            }
            1
        } else {
            0
        }
    }
}
