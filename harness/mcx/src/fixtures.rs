//! Validation of reference model R against the repository's golden fixtures (tests/inputs + tests/json).
//! Uses only files on disk and the independent recogniser — never the implementation under test — so that a
//! change to the implementation cannot turn this into a machinery failure.
use crate::fxref::{RateTable, fx_fn};
use crate::rat::Rat;
use crate::refmodel::{Rule, evaluate, to_rtx};
use crate::refparse;
use cgt_core::Operation;
use rust_decimal::Decimal;
use serde_json::Value;
use std::collections::BTreeMap;
use std::str::FromStr;

pub struct FixtureReport {
    pub checked: usize,
    pub skipped: usize,
    pub problems: Vec<String>,
}

fn dec_of(v: &Value) -> Rat {
    let s = match v {
        Value::String(s) => s.clone(),
        other => other.to_string(),
    };
    Rat::from_dec(Decimal::from_str(&s).unwrap_or_default())
}

pub fn validate_r(rates: &RateTable) -> FixtureReport {
    let mut rep = FixtureReport { checked: 0, skipped: 0, problems: vec![] };
    let dir = "/repo/tests/inputs";
    let mut names: Vec<String> = std::fs::read_dir(dir)
        .map(|rd| rd.flatten().filter_map(|e| e.file_name().to_str().and_then(|n| n.strip_suffix(".cgt").map(String::from))).collect())
        .unwrap_or_default();
    names.sort();
    let pennies = Rat::frac(11, 1000);
    let fx = fx_fn(rates);
    for name in names {
        let Ok(text) = std::fs::read_to_string(format!("{dir}/{name}.cgt")) else { continue };
        let Ok(gold) = std::fs::read_to_string(format!("/repo/tests/json/{name}.json")) else {
            rep.skipped += 1;
            continue;
        };
        let txs = match refparse::parse(&text) {
            Ok(t) => t,
            Err(e) => {
                rep.problems.push(format!("{name}: reference recogniser rejects fixture line {}: {}", e.line, e.why));
                continue;
            }
        };
        if txs.iter().any(|t| matches!(t.operation, Operation::CapReturn { .. } | Operation::Accumulation { .. })) {
            rep.skipped += 1;
            continue;
        }
        let rtx = match to_rtx(&txs, &fx) {
            Ok(r) => r,
            Err(m) => {
                rep.problems.push(format!("{name}: missing rate {m:?}"));
                continue;
            }
        };
        let r = evaluate(&rtx);
        if !r.covered() {
            rep.problems.push(format!("{name}: R says uncovered {:?}", r.uncovered));
            continue;
        }
        let gold: Value = serde_json::from_str(&gold).unwrap_or(Value::Null);
        let mut g: BTreeMap<(String, String), &Value> = BTreeMap::new();
        for y in gold["tax_years"].as_array().cloned().unwrap_or_default().iter() {
            let _ = y;
        }
        let years = gold["tax_years"].as_array().cloned().unwrap_or_default();
        for y in &years {
            for d in y["disposals"].as_array().map(|a| a.as_slice()).unwrap_or(&[]) {
                g.insert((d["date"].as_str().unwrap_or("").to_string(), d["ticker"].as_str().unwrap_or("").to_string()), d);
            }
        }
        let mut seen = 0;
        for rd in &r.disposals {
            let key = (rd.date.to_string(), rd.ticker.clone());
            let Some(gd) = g.get(&key) else {
                rep.problems.push(format!("{name}: golden has no disposal {key:?}"));
                continue;
            };
            seen += 1;
            let mut gl: BTreeMap<(Rule, String), (Rat, Rat, Rat)> = BTreeMap::new();
            for m in gd["matches"].as_array().map(|a| a.as_slice()).unwrap_or(&[]) {
                let rule = match m["rule"].as_str().unwrap_or("") {
                    "SameDay" => Rule::SameDay,
                    "BedAndBreakfast" => Rule::Bnb,
                    _ => Rule::S104,
                };
                let acq = if rule == Rule::S104 { String::new() } else { m["acquisition_date"].as_str().unwrap_or("").to_string() };
                let e = gl.entry((rule, acq)).or_default();
                e.0 += dec_of(&m["quantity"]);
                e.1 += dec_of(&m["allowable_cost"]);
                e.2 += dec_of(&m["gain_or_loss"]);
            }
            let mut rl: BTreeMap<(Rule, String), (Rat, Rat, Rat)> = BTreeMap::new();
            for l in &rd.legs {
                let e = rl.entry((l.rule, l.acq.map(|d| d.to_string()).unwrap_or_default())).or_default();
                e.0 += &l.qty;
                e.1 += &l.cost;
                e.2 += rd.leg_gain(l);
            }
            if gl.keys().collect::<Vec<_>>() != rl.keys().collect::<Vec<_>>() {
                rep.problems.push(format!("{name} {key:?}: leg keys golden {:?} vs R {:?}", gl.keys().collect::<Vec<_>>(), rl.keys().collect::<Vec<_>>()));
                continue;
            }
            for (k, gv) in &gl {
                let rv = &rl[k];
                // golden money is rounded to pence per raw leg; allow 0.011 per merged raw leg count (<=3)
                let tol = &pennies * &Rat::int(3);
                if !gv.0.close(&rv.0) || (&gv.1 - &rv.1).abs() > tol || (&gv.2 - &rv.2).abs() > tol {
                    rep.problems.push(format!("{name} {key:?} {k:?}: golden q={} c={} g={} ; R q={} c={} g={}", gv.0, gv.1, gv.2, rv.0, rv.1.to_f64(), rv.2.to_f64()));
                }
            }
        }
        if seen != g.len() {
            rep.problems.push(format!("{name}: golden lists {} disposals, R {}", g.len(), r.disposals.len()));
        }
        let mut gh: BTreeMap<String, (Rat, Rat)> = BTreeMap::new();
        for h in gold["holdings"].as_array().cloned().unwrap_or_default().iter() {
            gh.insert(h["ticker"].as_str().unwrap_or("").to_string(), (dec_of(&h["quantity"]), dec_of(&h["total_cost"])));
        }
        for h in &r.holdings {
            let z = (Rat::zero(), Rat::zero());
            let gv = gh.get(&h.ticker).unwrap_or(&z);
            if !gv.0.close(&h.qty) || (&gv.1 - &h.cost).abs() > pennies {
                rep.problems.push(format!("{name}: holding {} golden ({}, {}) R ({}, {})", h.ticker, gv.0, gv.1, h.qty, h.cost.to_f64()));
            }
        }
        rep.checked += 1;
    }
    rep
}
