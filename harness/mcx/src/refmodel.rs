//! Reference model R (DESIGN §3.1): exact-rational evaluation of TCGA92 s105(1) / s106A / s104 on per-day
//! aggregates. Written from docs/tax-rules.md and the property statements, not from the implementation:
//! no lots, no indices, no reservations, no look-ahead state.
use crate::rat::Rat;
use cgt_core::{Currency, CurrencyAmount, Operation, Transaction};
use chrono::{Datelike, NaiveDate};
use std::collections::BTreeMap;

#[derive(Clone, Debug)]
pub enum ROp {
    Buy { q: Rat, p: Rat, f: Rat },
    Sell { q: Rat, p: Rat, f: Rat },
    Split(Rat),
    Unsplit(Rat),
    CapRet { total: Rat, fees: Rat },
    Accum { total: Rat },
    Div { total: Rat, tax: Rat },
}
#[derive(Clone, Debug)]
pub struct RTx {
    pub date: NaiveDate,
    pub ticker: String,
    pub op: ROp,
}

pub type FxFn<'a> = &'a dyn Fn(&str, i32, u32) -> Option<Rat>;

pub fn no_fx(_c: &str, _y: i32, _m: u32) -> Option<Rat> {
    None
}

fn conv(a: &CurrencyAmount, d: NaiveDate, fx: FxFn) -> Result<Rat, (String, i32, u32)> {
    let v = Rat::from_dec(a.amount);
    if a.currency == Currency::GBP {
        return Ok(v);
    }
    let code = a.currency.code();
    match fx(code, d.year(), d.month()) {
        Some(rate) => Ok(v / rate),
        None => Err((code.to_string(), d.year(), d.month())),
    }
}

/// Convert tool transactions to the neutral rational form (GBP). Err = (currency, year, month) of a missing rate.
pub fn to_rtx(txs: &[Transaction], fx: FxFn) -> Result<Vec<RTx>, (String, i32, u32)> {
    let mut out = Vec::with_capacity(txs.len());
    for t in txs {
        let d = t.date;
        let op = match &t.operation {
            Operation::Buy { amount, price, fees } => ROp::Buy { q: Rat::from_dec(*amount), p: conv(price, d, fx)?, f: conv(fees, d, fx)? },
            Operation::Sell { amount, price, fees } => ROp::Sell { q: Rat::from_dec(*amount), p: conv(price, d, fx)?, f: conv(fees, d, fx)? },
            Operation::Split { ratio } => ROp::Split(Rat::from_dec(*ratio)),
            Operation::Unsplit { ratio } => ROp::Unsplit(Rat::from_dec(*ratio)),
            Operation::CapReturn { total_value, fees, .. } => ROp::CapRet { total: conv(total_value, d, fx)?, fees: conv(fees, d, fx)? },
            Operation::Accumulation { total_value, tax_paid, .. } => {
                let _ = conv(tax_paid, d, fx)?;
                ROp::Accum { total: conv(total_value, d, fx)? }
            }
            Operation::Dividend { total_value, tax_paid } => ROp::Div { total: conv(total_value, d, fx)?, tax: conv(tax_paid, d, fx)? },
        };
        out.push(RTx { date: d, ticker: t.ticker.to_uppercase(), op });
    }
    Ok(out)
}

#[derive(Clone, Copy, Debug, PartialEq, Eq, PartialOrd, Ord, Hash)]
pub enum Rule {
    SameDay,
    Bnb,
    S104,
}

#[derive(Clone, Debug)]
pub struct RLeg {
    pub rule: Rule,
    pub qty: Rat,
    pub acq: Option<NaiveDate>,
    pub cost: Rat,
}
#[derive(Clone, Debug)]
pub struct RDisposal {
    pub date: NaiveDate,
    pub ticker: String,
    pub qty: Rat,
    pub gross: Rat,
    pub fees: Rat,
    pub legs: Vec<RLeg>,
}
impl RDisposal {
    pub fn net(&self) -> Rat {
        &self.gross - &self.fees
    }
    pub fn cost(&self) -> Rat {
        self.legs.iter().map(|l| l.cost.clone()).sum()
    }
    pub fn gain(&self) -> Rat {
        self.net() - self.cost()
    }
    pub fn leg_gain(&self, l: &RLeg) -> Rat {
        let share = &l.qty / &self.qty;
        &self.gross * &share - &self.fees * &share - &l.cost
    }
}
#[derive(Clone, Debug)]
pub struct RHolding {
    pub ticker: String,
    pub qty: Rat,
    pub cost: Rat,
}
#[derive(Clone, Debug)]
pub struct DayTrace {
    pub date: NaiveDate,
    /// shares held at the start of the day (in that day's units, before the day's trades)
    pub pos_start: Rat,
    /// shares held after the day's trades, before the day's split/unsplit
    pub pos_end: Rat,
    /// Section 104 pool (quantity, cost) at the start of the day in R (no CAPRETURN/ACCUMULATION effect)
    pub pool_start: (Rat, Rat),
}
#[derive(Clone, Debug, Default)]
pub struct RResult {
    /// every (ticker, date) at which cumulative disposals exceed cumulative acquisitions
    pub uncovered: Vec<(String, NaiveDate)>,
    /// only meaningful when `uncovered` is empty
    pub disposals: Vec<RDisposal>,
    pub holdings: Vec<RHolding>,
    pub traces: BTreeMap<String, Vec<DayTrace>>,
    pub has_adjustments: bool,
    /// some share count that exact evaluation needs (a position, a unit factor between a sale and a purchase in its
    /// 30-day window, a purchase expressed in the sale's units) has no finite decimal expansion
    pub non_decimal_share_count: bool,
}
impl RResult {
    pub fn covered(&self) -> bool {
        self.uncovered.is_empty()
    }
    pub fn pos_start(&self, ticker: &str, date: NaiveDate) -> Rat {
        // position at the start of `date`, after that day's SPLIT/UNSPLIT and before its trades; 0 if none
        let Some(tr) = self.traces.get(ticker) else { return Rat::zero() };
        for t in tr {
            if t.date == date {
                return t.pos_start.clone();
            }
        }
        Rat::zero()
    }
}

#[derive(Default, Clone)]
struct Day {
    b: Rat,
    c: Rat,
    s: Rat,
    g: Rat,
    f: Rat,
    ratio: Rat,
}

pub fn evaluate(txs: &[RTx]) -> RResult {
    let mut res = RResult::default();
    let mut tickers: Vec<&str> = txs.iter().map(|t| t.ticker.as_str()).collect();
    tickers.sort();
    tickers.dedup();
    for tk in tickers {
        let mut days: BTreeMap<NaiveDate, Day> = BTreeMap::new();
        let mut any_buy = false;
        for t in txs.iter().filter(|t| t.ticker == tk) {
            let d = days.entry(t.date).or_insert_with(|| Day { ratio: Rat::one(), ..Default::default() });
            match &t.op {
                ROp::Buy { q, p, f } => {
                    any_buy = true;
                    d.b += q;
                    d.c += q * p + f;
                }
                ROp::Sell { q, p, f } => {
                    d.s += q;
                    d.g += q * p;
                    d.f += f;
                }
                ROp::Split(r) => d.ratio *= r,
                ROp::Unsplit(r) => d.ratio = &d.ratio / r,
                ROp::CapRet { .. } | ROp::Accum { .. } => res.has_adjustments = true,
                ROp::Div { .. } => {}
            }
        }
        let dates: Vec<NaiveDate> = days.keys().copied().collect();
        let dv: Vec<Day> = days.values().cloned().collect();
        let n = dates.len();
        // coverage
        let mut pos = Rat::zero();
        let mut tr = Vec::with_capacity(n);
        let mut uncovered_here = false;
        // Within a day a SPLIT/UNSPLIT comes first (docs/spec.md "split applied before matching; disposal uses
        // post-split quantities", enforced by fix 9568b9a): the day's trades are in post-split units.
        for i in 0..n {
            pos = &pos * &dv[i].ratio;
            let pos_start = pos.clone();
            pos = &pos + &dv[i].b - &dv[i].s;
            if pos.is_neg() {
                res.uncovered.push((tk.to_string(), dates[i]));
                uncovered_here = true;
            }
            tr.push(DayTrace { date: dates[i], pos_start, pos_end: pos.clone(), pool_start: (Rat::zero(), Rat::zero()) });
        }
        // unit factor between day i and day j>i : product of ratios of days i+1..=j
        let u = |i: usize, j: usize| -> Rat {
            let mut r = Rat::one();
            for k in (i + 1)..=j {
                r *= &dv[k].ratio;
            }
            r
        };
        // share counts without a finite decimal expansion (independent of coverage)
        for t in &tr {
            if !t.pos_start.is_finite_decimal() || !t.pos_end.is_finite_decimal() {
                res.non_decimal_share_count = true;
            }
        }
        if !pos.is_finite_decimal() {
            res.non_decimal_share_count = true;
        }
        for i in 0..n {
            if !dv[i].s.is_pos() {
                continue;
            }
            for j in (i + 1)..n {
                if (dates[j] - dates[i]).num_days() > 30 {
                    break;
                }
                if dv[j].b.is_pos() {
                    let f = u(i, j);
                    if !f.is_finite_decimal() || !(&dv[j].b / &f).is_finite_decimal() || !(Rat::one() / &f).is_finite_decimal() {
                        res.non_decimal_share_count = true;
                    }
                }
            }
        }
        if uncovered_here {
            res.traces.insert(tk.to_string(), tr);
            continue;
        }
        let sd: Vec<Rat> = (0..n).map(|i| dv[i].s.clone().min(dv[i].b.clone())).collect();
        let mut claimed: Vec<Rat> = vec![Rat::zero(); n];
        let mut legs: Vec<Vec<RLeg>> = vec![Vec::new(); n];
        let mut rem: Vec<Rat> = vec![Rat::zero(); n];
        for i in 0..n {
            if dv[i].s.is_zero() {
                continue;
            }
            let mut r = &dv[i].s - &sd[i];
            if sd[i].is_pos() {
                legs[i].push(RLeg { rule: Rule::SameDay, qty: sd[i].clone(), acq: Some(dates[i]), cost: &sd[i] * &dv[i].c / &dv[i].b });
            }
            for j in (i + 1)..n {
                if !r.is_pos() {
                    break;
                }
                let gap = (dates[j] - dates[i]).num_days();
                if gap > 30 {
                    break;
                }
                if !dv[j].b.is_pos() {
                    continue;
                }
                let free = &dv[j].b - &sd[j] - &claimed[j];
                if !free.is_pos() {
                    continue;
                }
                let f = u(i, j);
                let m = r.clone().min(&free / &f);
                let mf = &m * &f;
                legs[i].push(RLeg { rule: Rule::Bnb, qty: m.clone(), acq: Some(dates[j]), cost: &mf * &dv[j].c / &dv[j].b });
                claimed[j] += &mf;
                r -= &m;
            }
            rem[i] = r;
        }
        let mut q = Rat::zero();
        let mut k = Rat::zero();
        for i in 0..n {
            q *= &dv[i].ratio;
            tr[i].pool_start = (q.clone(), k.clone());
            if rem[i].is_pos() {
                // covered => q >= rem (up to exactness); guard anyway
                let cost = if q.is_pos() { &rem[i] * &k / &q } else { Rat::zero() };
                legs[i].push(RLeg { rule: Rule::S104, qty: rem[i].clone(), acq: None, cost: cost.clone() });
                q -= &rem[i];
                k -= &cost;
            }
            let add = &dv[i].b - &sd[i] - &claimed[i];
            if add.is_pos() {
                k += &add * &dv[i].c / &dv[i].b;
                q += &add;
            }
        }
        for i in 0..n {
            if dv[i].s.is_pos() {
                res.disposals.push(RDisposal {
                    date: dates[i],
                    ticker: tk.to_string(),
                    qty: dv[i].s.clone(),
                    gross: dv[i].g.clone(),
                    fees: dv[i].f.clone(),
                    legs: std::mem::take(&mut legs[i]),
                });
            }
        }
        if any_buy {
            res.holdings.push(RHolding { ticker: tk.to_string(), qty: q, cost: k });
        }
        res.traces.insert(tk.to_string(), tr);
    }
    res.disposals.sort_by(|a, b| (a.date, &a.ticker).cmp(&(b.date, &b.ticker)));
    res
}

/// UK tax year start for a date by the 6-April rule, written with month/day comparison only.
pub fn tax_year_of(d: NaiveDate) -> i32 {
    let (m, day) = (d.month(), d.day());
    if m > 4 || (m == 4 && day >= 6) { d.year() } else { d.year() - 1 }
}
