//! Ledger alphabets (DESIGN §3, §6). Every alphabet is a restriction of the property's quantifier; the
//! restriction is recorded in the evidence file via `Alphabet::describe`.
use crate::alpha::*;
use cgt_core::Transaction;
use chrono::{Duration, NaiveDate};

pub fn base() -> NaiveDate {
    date(2023, 6, 1)
}
pub fn off(b: NaiveDate, o: i64) -> NaiveDate {
    b + Duration::days(o)
}

/// `match1`: one security; dates base+{-40,0,1,2,30,31,32}; optional BUY q∈{3,10}, SELL q∈{0.5,2,5,10} per date;
/// SPLIT 2 / UNSPLIT 2 on base+{-20,0,1,15,31}. Prices distinct per (date, kind); some events carry fees.
pub fn match1(ratios: &[&str], reduced: bool) -> Alphabet {
    let b = base();
    let mut evs: Vec<Transaction> = vec![];
    let offs: [i64; 7] = [-40, 0, 1, 2, 30, 31, 32];
    for (i, o) in offs.iter().enumerate() {
        let d = off(b, *o);
        let bp = 10 + i as i64;
        let sp = 20 + 2 * i as i64;
        evs.push(buy(d, "X", "10", &format!("{bp}.5"), "2"));
        evs.push(sell(d, "X", "5", &format!("{}", sp + 1), "1"));
        evs.push(sell(d, "X", "10", &format!("{}", sp + 2), "0"));
        if !reduced && i == 1 {
            // dust: a sale of half a millionth of a share and, below, repurchases of the same size
            evs.push(sell(d, "X", "0.0000005", "100", "0"));
        }
        if !reduced && (i == 2 || i == 4) {
            evs.push(buy(d, "X", "0.0000005", "90", "0"));
        }
        if !reduced && (i == 1 || i == 5) {
            // shares acquired for nothing (allowable cost exactly 0) on a day with sales
            evs.push(buy(d, "X", "7", "0", "0"));
        }
        if !reduced {
            evs.push(buy(d, "X", "3", &format!("{bp}"), "0"));
            evs.push(sell(d, "X", "0.5", &format!("{sp}"), "0"));
            evs.push(sell(d, "X", "2", &format!("{sp}"), "0.3"));
        }
    }
    let split_offs: &[i64] = if reduced { &[-20, 15] } else { &[-20, 0, 1, 15, 31] };
    for o in split_offs {
        for r in ratios {
            evs.push(split(off(b, *o), "X", r));
            evs.push(unsplit(off(b, *o), "X", r));
        }
    }
    Alphabet::new(if reduced { "match1-reduced" } else { "match1" }, evs, Rules::STRICT)
}

/// `oversell` (C05): duplicated SELL rows, sales whose companion is matched forward, oversells that appear only
/// after SPLIT/UNSPLIT with ratios {2,3}.
pub fn oversell() -> Alphabet {
    let b = base();
    let mut evs = vec![];
    for (i, o) in [-40i64, 0, 1, 8, 31].iter().enumerate() {
        let d = off(b, *o);
        evs.push(buy(d, "X", "100", &format!("{}", 10 + i), "1"));
        evs.push(buy(d, "X", "28", &format!("{}", 11 + i), "0"));
        evs.push(sell(d, "X", "100", &format!("{}", 20 + i), "1"));
        evs.push(sell(d, "X", "50", &format!("{}", 21 + i), "0"));
        evs.push(sell(d, "X", "28", &format!("{}", 22 + i), "0"));
    }
    for o in [-20i64, 4, 20] {
        for r in ["2", "3"] {
            evs.push(split(off(b, o), "X", r));
            evs.push(unsplit(off(b, o), "X", r));
        }
    }
    // value-range corners: a sale exceeding the holding by less than a millionth of a share, and a dust sale
    evs.push(sell(off(b, 1), "X", "100.0000004", "20", "0"));
    evs.push(sell(off(b, 8), "X", "128.00000009", "20", "0"));
    evs.push(sell(off(b, 8), "X", "0.0000009", "20", "0"));
    let mut rules = Rules::STRICT;
    rules.allow_dup = true;
    rules.one_sell = false;
    rules.one_buy = false;
    Alphabet::new("oversell", evs, rules)
}

/// `compete` (C01 c): 2–3 disposal days in a row and one acquisition day that also has its own disposal,
/// every quantity combination from {1,2,3,5,8}.
pub fn compete_ledgers() -> Vec<Vec<Transaction>> {
    let b = base();
    let qs = ["1", "2", "3", "5", "8"];
    let mut out = vec![];
    for s1 in qs {
        for s2 in qs {
            for s3 in ["0", "1", "3", "8"] {
                for bq in qs {
                    for sq in qs {
                        for with_split in [false, true] {
                            let mut l = vec![buy(off(b, -40), "X", "30", "10", "3")];
                            l.push(sell(off(b, 0), "X", s1, "20", "1"));
                            l.push(sell(off(b, 1), "X", s2, "21", "0"));
                            if s3 != "0" {
                                l.push(sell(off(b, 2), "X", s3, "22", "0.5"));
                            }
                            if with_split {
                                l.push(split(off(b, 3), "X", "2"));
                            }
                            l.push(buy(off(b, 5), "X", bq, "15", "1"));
                            l.push(sell(off(b, 5), "X", sq, "25", "0"));
                            out.push(l);
                        }
                    }
                }
            }
        }
    }
    out
}

/// `two-sec` (C09): securities A and B on the same dates.
pub fn two_sec() -> Alphabet {
    let b = base();
    let mut evs = vec![];
    for (k, tk) in ["A", "B"].iter().enumerate() {
        for (i, o) in [-40i64, 0, 1, 10].iter().enumerate() {
            let d = off(b, *o);
            let p = 10 + i + 3 * k;
            evs.push(buy(d, tk, "10", &format!("{p}"), "1"));
            evs.push(sell(d, tk, "4", &format!("{}", p + 10), "0.5"));
            evs.push(sell(d, tk, "10", &format!("{}", p + 11), "0"));
        }
        // a purchase well outside every 30-day window
        evs.push(buy(off(b, 45), tk, "10", &format!("{}", 16 + 3 * k), "1"));
        evs.push(split(off(b, -20), tk, "2"));
        evs.push(split(off(b, 5), tk, "2"));
        evs.push(capret(off(b, -10), tk, "10", "5", "0"));
        evs.push(accum(off(b, 6), tk, "10", "7", "0"));
    }
    Alphabet::new("two-sec", evs, Rules::STRICT)
}

/// `events` (C03/C10/C11): one security with CAPRETURN / ACCUMULATION / DIVIDEND / SPLIT / UNSPLIT.
pub fn events(ratios: &[&str]) -> Alphabet {
    let b = base();
    let mut evs = vec![];
    for (i, o) in [-40i64, -20, 0, 5, 10, 45].iter().enumerate() {
        let d = off(b, *o);
        evs.push(buy(d, "X", "10", &format!("{}", 10 + i), "1"));
        evs.push(sell(d, "X", "4", &format!("{}", 20 + i), "0.5"));
        evs.push(sell(d, "X", "10", &format!("{}", 21 + i), "0"));
    }
    // a very cheap lot (unit cost far below a per-share capital return)
    evs.push(buy(off(b, 5), "X", "10", "1", "0"));
    for o in [-30i64, -10, 3, 7, 20] {
        let d = off(b, o);
        evs.push(capret(d, "X", "10", "5", "0"));
        evs.push(capret(d, "X", "10", "6", "1"));
        evs.push(accum(d, "X", "10", "7", "0"));
    }
    // a return exactly equal to the cost of the seed lot (10*10+1 = 101), and one far larger
    evs.push(capret(off(b, -30), "X", "10", "101", "0"));
    evs.push(capret(off(b, -30), "X", "10", "500", "0"));
    evs.push(capret(off(b, 3), "X", "10", "500", "0"));
    // larger than one lot's cost but smaller than two lots' (exhausted-lot shapes)
    evs.push(capret(off(b, 3), "X", "10", "150", "0"));
    evs.push(capret(off(b, 7), "X", "10", "200", "0"));
    evs.push(capret(off(b, 7), "X", "10", "60", "0"));
    for o in [-25i64, 2, 8] {
        for r in ratios {
            evs.push(split(off(b, o), "X", r));
            evs.push(unsplit(off(b, o), "X", r));
        }
    }
    evs.push(dividend(off(b, -15), "X", "3", "1"));
    evs.push(dividend(off(b, 4), "X", "3", "0"));
    Alphabet::new("events", evs, Rules::STRICT)
}

/// `two-sec` without CAPRETURN/ACCUMULATION (C12 excludes them).
pub fn two_sec_plain() -> Alphabet {
    let a = two_sec();
    let evs: Vec<Transaction> = a.evs.into_iter().filter(|t| class_of(t) != Class::Adj).collect();
    Alphabet::new("two-sec-plain", evs, Rules::STRICT)
}

/// `events-fx`: the `events` shape with USD/EUR amounts (price and fees in different currencies on one line).
pub fn events_fx() -> Alphabet {
    let b = base();
    let mut evs = vec![];
    for (i, o) in [-40i64, -20, 0, 5, 45].iter().enumerate() {
        let d = off(b, *o);
        evs.push(buy(d, "X", "10", &format!("{} USD", 10 + i), "1 EUR"));
        evs.push(buy(d, "X", "10", &format!("{}", 9 + i), "1.5 USD"));
        evs.push(sell(d, "X", "4", &format!("{} EUR", 20 + i), "0.5"));
        evs.push(sell(d, "X", "10", &format!("{} USD", 21 + i), "1 USD"));
    }
    for o in [-30i64, 3, 20] {
        let d = off(b, o);
        evs.push(capret(d, "X", "10", "5 USD", "1 EUR"));
        evs.push(accum(d, "X", "10", "7 EUR", "0"));
    }
    // amount and FEES/TAX in different currencies, one of them sterling (written without a code)
    evs.push(capret(off(b, 3), "X", "10", "6", "1 USD"));
    evs.push(capret(off(b, 20), "X", "10", "8 USD", "1"));
    evs.push(accum(off(b, -30), "X", "10", "7 USD", "1"));
    for o in [-25i64, 2] {
        evs.push(split(off(b, o), "X", "2"));
    }
    let mut rules = Rules::STRICT;
    rules.one_buy = false;
    Alphabet::new("events-fx", evs, rules)
}

/// `oversell-2sec` (C05): two securities on the same dates, duplicated rows allowed, several SELL rows per day,
/// repurchases inside the 30-day window.
pub fn oversell_two_sec() -> Alphabet {
    let b = base();
    let mut evs = vec![];
    for (i, o) in [-40i64, 0, 7].iter().enumerate() {
        let d = off(b, *o);
        evs.push(buy(d, "X", "10", &format!("{}", 10 + i), "1"));
        evs.push(sell(d, "X", "10", &format!("{}", 20 + i), "1"));
        evs.push(sell(d, "X", "4", &format!("{}", 21 + i), "0"));
        evs.push(buy(d, "Y", "4", &format!("{}", 5 + i), "0"));
        evs.push(sell(d, "Y", "1", &format!("{}", 7 + i), "0"));
        evs.push(dividend(d, "Y", "3", "0"));
    }
    let mut rules = Rules::STRICT;
    rules.allow_dup = true;
    rules.one_sell = false;
    rules.one_buy = false;
    Alphabet::new("oversell-2sec", evs, rules)
}

/// A line order in which rows of one (date, security, kind) group are NOT adjacent whenever the day has rows of
/// another group: within each date, round-robin over the (security, kind) groups.
pub fn interleaved(txs: &[Transaction]) -> Vec<Transaction> {
    interleaved_by(txs, false)
}
/// Same, but purchases come before sales in each round (BUY a, SELL, BUY b: the two purchases are not adjacent).
pub fn interleaved_buys_first(txs: &[Transaction]) -> Vec<Transaction> {
    interleaved_by(txs, true)
}
/// Both interleavings, their reversals and the reversed canonical order, as far as they differ from the given order
/// (the tool sorts by date stably, so only the order within a date matters).
pub fn other_orders(txs: &[Transaction]) -> Vec<Vec<Transaction>> {
    let mut v = vec![];
    let rev = |mut x: Vec<Transaction>| {
        x.reverse();
        x
    };
    let (a, b) = (interleaved(txs), interleaved_buys_first(txs));
    for o in [a.clone(), b.clone(), rev(a), rev(b), rev(txs.to_vec())] {
        if o != txs && !v.contains(&o) {
            v.push(o);
        }
    }
    v
}
fn interleaved_by(txs: &[Transaction], buys_first: bool) -> Vec<Transaction> {
    use std::collections::BTreeMap;
    let mut by_date: BTreeMap<chrono::NaiveDate, Vec<&Transaction>> = BTreeMap::new();
    for t in txs {
        by_date.entry(t.date).or_default().push(t);
    }
    let mut out = vec![];
    for (_, rows) in by_date {
        let mut groups: BTreeMap<(String, u8), Vec<&Transaction>> = BTreeMap::new();
        for t in rows {
            let k = match class_of(t) {
                Class::Sell => if buys_first { 1u8 } else { 0u8 },
                Class::Buy => if buys_first { 0 } else { 1 },
                Class::Div => 2,
                Class::Adj => 3,
                Class::Corp => 4,
            };
            groups.entry((t.ticker.clone(), k)).or_default().push(t);
        }
        // sells of X first, then other groups, then the next round
        let max = groups.values().map(|g| g.len()).max().unwrap_or(0);
        let mut keys: Vec<(String, u8)> = groups.keys().cloned().collect();
        keys.sort_by(|a, b| (a.1, &a.0).cmp(&(b.1, &b.0)));
        for round in 0..max {
            for k in &keys {
                if let Some(t) = groups[k].get(round) {
                    out.push((*t).clone());
                }
            }
        }
    }
    out
}

/// `two-sec-fills` (C09): two securities, two SELL lines per security and day allowed, repurchases within 30 days.
pub fn two_sec_fills() -> Alphabet {
    let b = base();
    let mut evs = vec![];
    for (k, tk) in ["A", "B"].iter().enumerate() {
        evs.push(buy(off(b, -40), tk, "100", &format!("{}", 10 + k), "1"));
        for (i, o) in [0i64, 8].iter().enumerate() {
            let d = off(b, *o);
            evs.push(sell(d, tk, "10", &format!("{}", 20 + i + k), "0.5"));
            evs.push(sell(d, tk, "5", &format!("{}", 22 + i + k), "0"));
            evs.push(buy(d, tk, "15", &format!("{}", 12 + i + k), "1"));
            evs.push(buy(d, tk, "7", &format!("{}", 14 + i + k), "0"));
        }
    }
    let mut r = Rules::STRICT;
    r.one_sell = false;
    r.one_buy = false;
    Alphabet::new("two-sec-fills", evs, r)
}

/// `events-reduced` (C03/C11): few dates, explored deeper: a sale, a split inside its 30-day window, the repurchase,
/// and adjustments after it.
pub fn events_reduced() -> Alphabet {
    let b = base();
    let mut evs = vec![];
    evs.push(buy(off(b, -40), "X", "10", "10", "1"));
    evs.push(sell(off(b, 0), "X", "4", "20", "0.5"));
    evs.push(sell(off(b, 0), "X", "10", "21", "0"));
    evs.push(split(off(b, 2), "X", "2"));
    evs.push(unsplit(off(b, 2), "X", "2"));
    evs.push(buy(off(b, 5), "X", "10", "13", "1"));
    evs.push(buy(off(b, 5), "X", "3", "12", "0"));
    evs.push(sell(off(b, 5), "X", "4", "25", "0"));
    for o in [7i64, 20] {
        evs.push(capret(off(b, o), "X", "10", "5", "0"));
        evs.push(capret(off(b, o), "X", "10", "6", "1"));
        evs.push(accum(off(b, o), "X", "10", "7", "0"));
    }
    evs.push(split(off(b, 12), "X", "2"));
    evs.push(sell(off(b, 30), "X", "5", "30", "1"));
    // a second early lot, a small cheap repurchase and a return large enough to drive that cheap lot negative while
    // the disposal's other leg keeps the disposal total positive
    evs.push(buy(off(b, -30), "X", "10", "11", "1"));
    evs.push(buy(off(b, 5), "X", "3", "1", "0"));
    evs.push(capret(off(b, 7), "X", "10", "60", "0"));
    Alphabet::new("events-reduced", evs, Rules::STRICT)
}

/// `events-same-day` (C06): CAPRETURN / ACCUMULATION / SPLIT lines dated on days that also have purchases and sales
/// of the same security, so that the order of a day's lines of different kinds is exercised.
pub fn events_same_day() -> Alphabet {
    let b = base();
    let mut evs = vec![];
    evs.push(buy(off(b, -40), "X", "10", "10", "1"));
    for (i, o) in [0i64, 5].iter().enumerate() {
        let d = off(b, *o);
        evs.push(buy(d, "X", "10", &format!("{}", 14 + i), "1"));
        evs.push(sell(d, "X", "4", &format!("{}", 20 + i), "0.5"));
        evs.push(sell(d, "X", "10", &format!("{}", 23 + i), "0"));
        evs.push(capret(d, "X", "10", "6", "1"));
        evs.push(accum(d, "X", "10", "7", "0"));
    }
    evs.push(capret(off(b, 5), "X", "20", "9", "0"));
    // a return larger than the expenditure then left, and an accumulation of the same amount on the same date
    evs.push(capret(off(b, 0), "X", "10", "150", "0"));
    evs.push(accum(off(b, 0), "X", "10", "150", "0"));
    evs.push(split(off(b, 0), "X", "2"));
    evs.push(split(off(b, 5), "X", "2"));
    evs.push(sell(off(b, 40), "X", "5", "30", "1"));
    // C06 is purely metamorphic (no reference model), so the same-day convention of DESIGN §3 is not needed here
    let mut rules = Rules::STRICT;
    rules.no_same_day_convention = false;
    rules.one_adj = false;
    Alphabet::new("events-same-day", evs, rules)
}

/// `events-two-adj` (C11): several CAPRETURN / ACCUMULATION lines of one security on one date — returns that fit
/// the expenditure one by one but not together, and returns that fit only thanks to a same-date accumulation.
pub fn events_two_adj() -> Alphabet {
    let b = base();
    let mut evs = vec![];
    evs.push(buy(off(b, -40), "X", "10", "10", "1"));
    evs.push(buy(off(b, -20), "X", "10", "12", "1"));
    evs.push(sell(off(b, 0), "X", "4", "20", "0.5"));
    evs.push(sell(off(b, 0), "X", "10", "21", "0"));
    evs.push(buy(off(b, 5), "X", "10", "13", "1"));
    for o in [3i64, 7] {
        let d = off(b, o);
        evs.push(capret(d, "X", "10", "60", "0"));
        evs.push(capret(d, "X", "10", "70", "1"));
        evs.push(capret(d, "X", "10", "45", "0"));
        evs.push(accum(d, "X", "10", "50", "0"));
        evs.push(accum(d, "X", "10", "7", "0"));
    }
    evs.push(sell(off(b, 30), "X", "5", "30", "1"));
    let mut rules = Rules::STRICT;
    rules.one_adj = false;
    Alphabet::new("events-two-adj", evs, rules)
}

/// `events-penny` (C11): capital returns that leave a 30-day leg (one share bought at £1) or the pool within a
/// fraction of a penny of zero cost, on both sides and exactly on the half-penny midpoints.
pub fn events_penny() -> Alphabet {
    let b = base();
    let mut evs = vec![];
    evs.push(buy(off(b, -40), "X", "100", "10", "0"));
    evs.push(sell(off(b, 0), "X", "1", "10", "0"));
    evs.push(buy(off(b, 5), "X", "1", "1", "0"));
    for t in ["99.5", "100", "100.4", "100.5", "100.6", "101.5"] {
        evs.push(capret(off(b, 7), "X", "100", t, "0"));
    }
    evs.push(accum(off(b, 8), "X", "100", "0.5", "0"));
    evs.push(capret(off(b, 9), "X", "100", "899.5", "0"));
    evs.push(capret(off(b, 9), "X", "100", "900.5", "0"));
    evs.push(sell(off(b, 45), "X", "100", "11", "0"));
    let mut rules = Rules::STRICT;
    rules.one_adj = false;
    Alphabet::new("events-penny", evs, rules)
}

/// `match1-same-day`: the `match1` events without the same-day exclusions of DESIGN §3 — SPLIT/UNSPLIT lines dated on
/// days that also have purchases and sales (base+0, +1, +31). The tool's convention (a day's SPLIT/UNSPLIT comes
/// before its trades; docs/spec.md, fix 9568b9a) is also R's.
pub fn match1_same_day(ratios: &[&str]) -> Alphabet {
    let a = match1(ratios, false);
    let mut rules = Rules::STRICT;
    rules.no_same_day_convention = false;
    Alphabet::new("match1-same-day", a.evs, rules)
}

/// `fx-years` (C06): foreign-currency lines dated in the same calendar month of different years, other months in
/// between, and sterling lines — any state carried from one line's conversion to the next shows as order dependence.
pub fn fx_years() -> Alphabet {
    let mut evs = vec![];
    evs.push(buy(date(2023, 1, 16), "A", "10", "100 USD", "1 USD"));
    evs.push(buy(date(2023, 1, 17), "B", "10", "50 EUR", "1 EUR"));
    evs.push(buy(date(2023, 7, 10), "B", "10", "40 USD", "0"));
    evs.push(sell(date(2024, 1, 15), "A", "5", "120 USD", "1 USD"));
    evs.push(sell(date(2024, 1, 16), "B", "5", "60 EUR", "0.5 EUR"));
    evs.push(sell(date(2024, 2, 5), "B", "5", "45 USD", "1"));
    evs.push(sell(date(2025, 1, 15), "A", "5", "130 USD", "1 EUR"));
    evs.push(buy(date(2024, 1, 15), "A", "2", "90", "0"));
    evs.push(dividend(date(2024, 1, 20), "A", "30 USD", "3 USD"));
    evs.push(dividend(date(2025, 1, 20), "A", "30 USD", "3 EUR"));
    Alphabet::new("fx-years", evs, Rules::STRICT)
}

/// `two-sec-fx` (C09): security A quoted in USD and security B in EUR on the same dates (same calendar months), fees
/// in a third currency on some lines: nothing of one security's conversion may reach the other's figures.
pub fn two_sec_fx() -> Alphabet {
    let b = base();
    let mut evs = vec![];
    for (k, (tk, cur, other)) in [("A", "USD", "EUR"), ("B", "EUR", "USD")].iter().enumerate() {
        for (i, o) in [-40i64, 0, 1, 10].iter().enumerate() {
            let d = off(b, *o);
            let p = 10 + i + 3 * k;
            evs.push(buy(d, tk, "10", &format!("{p} {cur}"), &format!("1 {cur}")));
            evs.push(sell(d, tk, "4", &format!("{} {cur}", p + 10), &format!("0.5 {other}")));
            evs.push(sell(d, tk, "10", &format!("{} {cur}", p + 11), "0"));
        }
        evs.push(dividend(off(b, 2), tk, &format!("30 {cur}"), &format!("3 {cur}")));
    }
    Alphabet::new("two-sec-fx", evs, Rules::STRICT)
}

/// `nano`: share counts with nine and ten decimal places. After the same-day and 30-day steps a sale is left with a
/// remainder of a billionth of a share or less for the pool; a sale of a billionth of a share; a sale exceeding the
/// holding by two ten-billionths. Every running share count is a finite decimal, so the exactness clauses apply.
pub fn nano() -> Alphabet {
    let b = base();
    let mut evs: Vec<Transaction> = vec![];
    evs.push(buy(off(b, -40), "X", "10", "10", "1"));
    evs.push(buy(off(b, -40), "X", "0.000000001", "10", "0"));
    evs.push(buy(off(b, 0), "X", "10", "11", "0"));
    evs.push(sell(off(b, 0), "X", "10.0000000005", "20", "1"));
    evs.push(sell(off(b, 1), "X", "0.000000001", "21", "0"));
    evs.push(sell(off(b, 1), "X", "0.0000000003", "21", "0"));
    evs.push(sell(off(b, 2), "X", "5.0000000003", "22", "0.5"));
    evs.push(sell(off(b, 2), "X", "20.0000000002", "22", "0"));
    evs.push(buy(off(b, 30), "X", "5", "12", "0"));
    evs.push(buy(off(b, 30), "X", "0.0000000007", "12", "0"));
    evs.push(sell(off(b, 31), "X", "1", "23", "0"));
    evs.push(sell(off(b, 32), "X", "9.9999999995", "23", "0"));
    let mut rules = Rules::STRICT;
    rules.one_sell = false;
    rules.one_buy = false;
    Alphabet::new("nano", evs, rules)
}
