//! Running the real implementation under catch_unwind and comparing its report with the reference model.
use crate::rat::Rat;
use crate::refmodel::{RResult, Rule, tax_year_of};
use cgt_core::calculator::calculate;
use cgt_core::{CgtError, Config, MatchRule, TaxReport, Transaction};
use cgt_money::FxCache;
use chrono::NaiveDate;
use rust_decimal::Decimal;
use std::collections::BTreeMap;
use std::panic::{AssertUnwindSafe, catch_unwind};

#[derive(Clone, Copy, Debug, PartialEq, Eq)]
pub enum ErrKind {
    InvalidTransaction,
    MissingFx,
    UnsupportedExemption,
    InvalidDateYear,
    InvalidTaxYear,
    Other,
}

pub enum Outcome {
    Report(TaxReport),
    Err { msg: String, kind: ErrKind },
    Panic(String),
}
impl Outcome {
    pub fn tag(&self) -> &'static str {
        match self {
            Outcome::Report(_) => "accepted",
            Outcome::Err { .. } => "rejected",
            Outcome::Panic(_) => "panic",
        }
    }
}

pub fn quiet_panics() {
    std::panic::set_hook(Box::new(|_| {}));
}

pub fn panic_msg(e: Box<dyn std::any::Any + Send>) -> String {
    if let Some(s) = e.downcast_ref::<&str>() {
        s.to_string()
    } else if let Some(s) = e.downcast_ref::<String>() {
        s.clone()
    } else {
        "panic".to_string()
    }
}

pub fn all_years_config() -> Config {
    let mut cfg = Config::default();
    for y in 1900..=2100u16 {
        cfg.exemptions.insert(y, Decimal::from(3000));
    }
    cfg
}

pub fn run_calc(txs: &[Transaction], year: Option<i32>, fx: Option<&FxCache>, cfg: &Config) -> Outcome {
    match catch_unwind(AssertUnwindSafe(|| calculate(txs, year, fx, cfg))) {
        Ok(Ok(r)) => Outcome::Report(r),
        Ok(Err(e)) => {
            let kind = match &e {
                CgtError::InvalidTransaction(_) => ErrKind::InvalidTransaction,
                CgtError::MissingFxRate { .. } => ErrKind::MissingFx,
                CgtError::UnsupportedExemptionYear(_) => ErrKind::UnsupportedExemption,
                CgtError::InvalidDateYear { .. } => ErrKind::InvalidDateYear,
                CgtError::InvalidTaxYear(_) => ErrKind::InvalidTaxYear,
                _ => ErrKind::Other,
            };
            Outcome::Err { msg: e.to_string(), kind }
        }
        Err(p) => Outcome::Panic(panic_msg(p)),
    }
}

pub fn rule_of(m: &MatchRule) -> Rule {
    match m {
        MatchRule::SameDay => Rule::SameDay,
        MatchRule::BedAndBreakfast => Rule::Bnb,
        MatchRule::Section104 => Rule::S104,
    }
}

#[derive(Clone, Debug, Default)]
pub struct MLeg {
    pub qty: Rat,
    pub cost: Rat,
    pub gain: Rat,
}
pub type LegKey = (Rule, Option<NaiveDate>);

/// Tool disposal with legs merged per (rule, acquisition date).
#[derive(Clone, Debug)]
pub struct TDisposal {
    pub date: NaiveDate,
    pub ticker: String,
    pub year: i32,
    pub qty: Rat,
    pub gross: Rat,
    pub net: Rat,
    pub legs: BTreeMap<LegKey, MLeg>,
    pub raw_legs: usize,
}

pub fn tool_disposals(rep: &TaxReport) -> Vec<TDisposal> {
    let mut out = vec![];
    for y in &rep.tax_years {
        for d in &y.disposals {
            let mut legs: BTreeMap<LegKey, MLeg> = BTreeMap::new();
            for m in &d.matches {
                let rule = rule_of(&m.rule);
                let acq = if rule == Rule::S104 { None } else { m.acquisition_date };
                let e = legs.entry((rule, acq)).or_default();
                e.qty += Rat::from_dec(m.quantity);
                e.cost += Rat::from_dec(m.allowable_cost);
                e.gain += Rat::from_dec(m.gain_or_loss);
            }
            out.push(TDisposal {
                date: d.date,
                ticker: d.ticker.clone(),
                year: y.period.start_year() as i32,
                qty: Rat::from_dec(d.quantity),
                gross: Rat::from_dec(d.gross_proceeds),
                net: Rat::from_dec(d.proceeds),
                legs,
                raw_legs: d.matches.len(),
            });
        }
    }
    out
}

pub struct Diff {
    pub clause: &'static str,
    pub detail: String,
}

fn d(clause: &'static str, detail: String) -> Diff {
    Diff { clause, detail }
}

/// Compare the tool's report with R on an accepted, covered ledger.
/// `with_money`: also compare allowable cost, proceeds and gains (ledgers without CAPRETURN/ACCUMULATION).
pub fn compare_matching(rep: &TaxReport, r: &RResult, with_money: bool) -> Vec<Diff> {
    let mut out = vec![];
    let tds = tool_disposals(rep);
    let mut tmap: BTreeMap<(NaiveDate, String), &TDisposal> = BTreeMap::new();
    for t in &tds {
        if tmap.insert((t.date, t.ticker.clone()), t).is_some() {
            out.push(d("disposal-duplicated", format!("disposal {} {} is listed more than once", t.date, t.ticker)));
        }
    }
    for rd in &r.disposals {
        let key = (rd.date, rd.ticker.clone());
        let Some(td) = tmap.remove(&key) else {
            out.push(d("disposal-missing", format!("no disposal reported for {} {} (sold {})", rd.date, rd.ticker, rd.qty)));
            continue;
        };
        if td.year != tax_year_of(rd.date) {
            out.push(d("tax-year", format!("disposal {} {} reported in {} expected {}", rd.date, rd.ticker, td.year, tax_year_of(rd.date))));
        }
        if !td.qty.close(&rd.qty) {
            out.push(d("disposal-quantity", format!("disposal {} {}: quantity {} expected {}", rd.date, rd.ticker, td.qty, rd.qty)));
        }
        // legs
        let mut rl: BTreeMap<LegKey, MLeg> = BTreeMap::new();
        for l in &rd.legs {
            let e = rl.entry((l.rule, l.acq)).or_default();
            e.qty += &l.qty;
            e.cost += &l.cost;
            e.gain += rd.leg_gain(l);
        }
        let keys: std::collections::BTreeSet<LegKey> = rl.keys().chain(td.legs.keys()).cloned().collect();
        for k in keys {
            let z = MLeg::default();
            let a = td.legs.get(&k).unwrap_or(&z);
            let b = rl.get(&k).unwrap_or(&z);
            if !a.qty.close(&b.qty) {
                out.push(d(
                    "leg-rule-quantity-date",
                    format!("disposal {} {}: leg {:?}/{:?} quantity {} expected {}", rd.date, rd.ticker, k.0, k.1, a.qty, b.qty),
                ));
                continue;
            }
            if with_money {
                // (the statement fixes each leg's allowable cost and each DISPOSAL's proceeds and gain; how a
                // disposal's proceeds are shared between its legs is not part of it — see C06-F2)
                if !a.cost.close(&b.cost) {
                    out.push(d("leg-cost", format!("disposal {} {}: leg {:?}/{:?} allowable cost {} expected {}", rd.date, rd.ticker, k.0, k.1, a.cost, b.cost)));
                }
            }
        }
        if with_money {
            if !td.gross.close(&rd.gross) {
                out.push(d("disposal-proceeds", format!("disposal {} {}: gross proceeds {} expected {}", rd.date, rd.ticker, td.gross, rd.gross)));
            }
            if !td.net.close(&rd.net()) {
                out.push(d("disposal-proceeds", format!("disposal {} {}: net proceeds {} expected {}", rd.date, rd.ticker, td.net, rd.net())));
            }
            let tg: Rat = td.legs.values().map(|l| l.gain.clone()).sum();
            if !tg.close(&rd.gain()) {
                out.push(d("disposal-gain", format!("disposal {} {}: gain {} expected {}", rd.date, rd.ticker, tg, rd.gain())));
            }
        }
    }
    for ((date, tk), td) in tmap {
        if !td.qty.negligible() {
            out.push(d("disposal-invented", format!("disposal {} {} (quantity {}) reported but nothing was sold", date, tk, td.qty)));
        }
    }
    out
}

/// Closing holdings: tool vs R (quantity always; cost only when `with_money`).
pub fn compare_holdings(rep: &TaxReport, r: &RResult, with_money: bool) -> Vec<Diff> {
    let mut out = vec![];
    let mut t: BTreeMap<String, (Rat, Rat)> = BTreeMap::new();
    for h in &rep.holdings {
        if t.insert(h.ticker.clone(), (Rat::from_dec(h.quantity), Rat::from_dec(h.total_cost))).is_some() {
            out.push(d("holding-duplicated", format!("holding {} listed twice", h.ticker)));
        }
    }
    let mut rr: BTreeMap<String, (Rat, Rat)> = BTreeMap::new();
    for h in &r.holdings {
        rr.insert(h.ticker.clone(), (h.qty.clone(), h.cost.clone()));
    }
    let keys: std::collections::BTreeSet<String> = t.keys().chain(rr.keys()).cloned().collect();
    for k in keys {
        let z = (Rat::zero(), Rat::zero());
        let a = t.get(&k).unwrap_or(&z);
        let b = rr.get(&k).unwrap_or(&z);
        if !a.0.close(&b.0) {
            out.push(d("holding-quantity", format!("closing holding {}: quantity {} expected {}", k, a.0, b.0)));
        } else if with_money && !a.1.close(&b.1) {
            out.push(d("holding-cost", format!("closing holding {}: cost {} expected {}", k, a.1, b.1)));
        }
    }
    out
}

/// Order invariants every report must satisfy (C16/C07): years ascending and unique, disposals by (date,ticker),
/// holdings by ticker.
pub fn order_invariants(rep: &TaxReport) -> Vec<Diff> {
    let mut out = vec![];
    for w in rep.tax_years.windows(2) {
        if w[0].period.start_year() >= w[1].period.start_year() {
            out.push(d("years-ascending", format!("tax years not strictly ascending: {} then {}", w[0].period.start_year(), w[1].period.start_year())));
        }
    }
    for y in &rep.tax_years {
        for w in y.disposals.windows(2) {
            if (w[0].date, &w[0].ticker) >= (w[1].date, &w[1].ticker) {
                out.push(d("disposals-ordered", format!("disposals not ordered by date,ticker: {} {} then {} {}", w[0].date, w[0].ticker, w[1].date, w[1].ticker)));
            }
        }
    }
    for w in rep.holdings.windows(2) {
        if w[0].ticker >= w[1].ticker {
            out.push(d("holdings-ordered", format!("holdings not ordered by ticker: {} then {}", w[0].ticker, w[1].ticker)));
        }
    }
    out
}
