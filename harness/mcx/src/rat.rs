//! Exact rational arithmetic for the reference models (num-bigint based).
use num_bigint::BigInt;
use num_integer::Integer;
use num_traits::{One, Signed, ToPrimitive, Zero};
use rust_decimal::Decimal;
use std::cmp::Ordering;
use std::fmt;
use std::ops::{Add, AddAssign, Div, Mul, MulAssign, Neg, Sub, SubAssign};

#[derive(Clone, PartialEq, Eq, Hash)]
pub struct Rat {
    n: BigInt,
    d: BigInt, // > 0, gcd(n,d)=1
}

impl Rat {
    pub fn new(n: BigInt, d: BigInt) -> Rat {
        assert!(!d.is_zero(), "Rat: zero denominator");
        let g = n.gcd(&d);
        let (mut n, mut d) = if g.is_one() { (n, d) } else { (n / &g, d / &g) };
        if d.is_negative() {
            n = -n;
            d = -d;
        }
        Rat { n, d }
    }
    pub fn zero() -> Rat {
        Rat { n: BigInt::zero(), d: BigInt::one() }
    }
    pub fn one() -> Rat {
        Rat { n: BigInt::one(), d: BigInt::one() }
    }
    pub fn int(i: i64) -> Rat {
        Rat { n: BigInt::from(i), d: BigInt::one() }
    }
    pub fn frac(n: i64, d: i64) -> Rat {
        Rat::new(BigInt::from(n), BigInt::from(d))
    }
    pub fn is_zero(&self) -> bool {
        self.n.is_zero()
    }
    pub fn is_pos(&self) -> bool {
        self.n.is_positive()
    }
    pub fn is_neg(&self) -> bool {
        self.n.is_negative()
    }
    pub fn abs(&self) -> Rat {
        Rat { n: self.n.abs(), d: self.d.clone() }
    }
    pub fn min(self, o: Rat) -> Rat {
        if self <= o { self } else { o }
    }
    pub fn max(self, o: Rat) -> Rat {
        if self >= o { self } else { o }
    }
    /// Exact value of a rust_decimal Decimal.
    pub fn from_dec(d: Decimal) -> Rat {
        let m = d.mantissa(); // i128
        let s = d.scale();
        Rat::new(BigInt::from(m), num_traits::pow(BigInt::from(10), s as usize))
    }
    /// True iff the value has a finite decimal expansion (denominator of the reduced fraction is 2^a * 5^b).
    pub fn is_finite_decimal(&self) -> bool {
        let mut d = self.d.clone();
        let two = BigInt::from(2);
        let five = BigInt::from(5);
        while (&d % &two).is_zero() {
            d /= &two;
        }
        while (&d % &five).is_zero() {
            d /= &five;
        }
        d.is_one()
    }
    pub fn to_f64(&self) -> f64 {
        // good enough for display
        let n = self.n.to_f64().unwrap_or(f64::NAN);
        let d = self.d.to_f64().unwrap_or(f64::NAN);
        n / d
    }
    /// |self - dec| <= 10^-9
    pub fn close_dec(&self, d: Decimal) -> bool {
        self.close(&Rat::from_dec(d))
    }
    pub fn close(&self, o: &Rat) -> bool {
        (self - o).abs() <= *TOL
    }
    /// True iff |self| <= 10^-9 (negligible quantity / money).
    pub fn negligible(&self) -> bool {
        self.abs() <= *TOL
    }
    /// Round half away from zero to `dp` decimal places; returns scaled integer (value * 10^dp).
    pub fn round_half_away_scaled(&self, dp: u32) -> BigInt {
        let scale = num_traits::pow(BigInt::from(10), dp as usize);
        let half: BigInt = if self.n.is_negative() { -self.d.clone() } else { self.d.clone() };
        let num: BigInt = &self.n * &scale * BigInt::from(2) + half;
        let den: BigInt = &self.d * BigInt::from(2);
        // truncate toward zero
        let (q, _r) = num.div_rem(&den);
        q
    }
    /// Decimal string with up to `dp` digits (truncated), for human display only.
    pub fn show(&self) -> String {
        if self.d.is_one() {
            return self.n.to_string();
        }
        // terminating?
        let mut d = self.d.clone();
        let two = BigInt::from(2);
        let five = BigInt::from(5);
        let mut k2 = 0u32;
        let mut k5 = 0u32;
        while (&d % &two).is_zero() {
            d /= &two;
            k2 += 1;
        }
        while (&d % &five).is_zero() {
            d /= &five;
            k5 += 1;
        }
        if d.is_one() && k2.max(k5) <= 40 {
            let s = k2.max(k5);
            let scaled = &self.n * num_traits::pow(BigInt::from(10), s as usize) / &self.d;
            let neg = scaled.is_negative();
            let digits = scaled.abs().to_string();
            let digits = if digits.len() <= s as usize {
                format!("{}{}", "0".repeat(s as usize + 1 - digits.len()), digits)
            } else {
                digits
            };
            let (i, f) = digits.split_at(digits.len() - s as usize);
            return format!("{}{}.{}", if neg { "-" } else { "" }, i, f);
        }
        format!("{}/{} (~{:.10})", self.n, self.d, self.to_f64())
    }
}

static TOL: std::sync::LazyLock<Rat> = std::sync::LazyLock::new(|| Rat::new(BigInt::one(), BigInt::from(1_000_000_000i64)));

impl fmt::Debug for Rat {
    fn fmt(&self, f: &mut fmt::Formatter<'_>) -> fmt::Result {
        write!(f, "{}", self.show())
    }
}
impl fmt::Display for Rat {
    fn fmt(&self, f: &mut fmt::Formatter<'_>) -> fmt::Result {
        write!(f, "{}", self.show())
    }
}

impl PartialOrd for Rat {
    fn partial_cmp(&self, o: &Rat) -> Option<Ordering> {
        Some(self.cmp(o))
    }
}
impl Ord for Rat {
    fn cmp(&self, o: &Rat) -> Ordering {
        (&self.n * &o.d).cmp(&(&o.n * &self.d))
    }
}

macro_rules! binop {
    ($tr:ident, $f:ident, $body:expr) => {
        impl<'a> $tr<&'a Rat> for &'a Rat {
            type Output = Rat;
            fn $f(self, o: &Rat) -> Rat {
                let f: fn(&Rat, &Rat) -> Rat = $body;
                f(self, o)
            }
        }
        impl $tr<Rat> for Rat {
            type Output = Rat;
            fn $f(self, o: Rat) -> Rat {
                (&self).$f(&o)
            }
        }
        impl<'a> $tr<&'a Rat> for Rat {
            type Output = Rat;
            fn $f(self, o: &Rat) -> Rat {
                (&self).$f(o)
            }
        }
        impl<'a> $tr<Rat> for &'a Rat {
            type Output = Rat;
            fn $f(self, o: Rat) -> Rat {
                self.$f(&o)
            }
        }
    };
}
binop!(Add, add, |a, b| if a.d == b.d {
    Rat::new(&a.n + &b.n, a.d.clone())
} else {
    Rat::new(&a.n * &b.d + &b.n * &a.d, &a.d * &b.d)
});
binop!(Sub, sub, |a, b| if a.d == b.d {
    Rat::new(&a.n - &b.n, a.d.clone())
} else {
    Rat::new(&a.n * &b.d - &b.n * &a.d, &a.d * &b.d)
});
binop!(Mul, mul, |a, b| Rat::new(&a.n * &b.n, &a.d * &b.d));
binop!(Div, div, |a, b| {
    assert!(!b.n.is_zero(), "Rat: division by zero");
    Rat::new(&a.n * &b.d, &a.d * &b.n)
});

impl Neg for Rat {
    type Output = Rat;
    fn neg(self) -> Rat {
        Rat { n: -self.n, d: self.d }
    }
}
impl AddAssign<&Rat> for Rat {
    fn add_assign(&mut self, o: &Rat) {
        *self = &*self + o;
    }
}
impl AddAssign<Rat> for Rat {
    fn add_assign(&mut self, o: Rat) {
        *self = &*self + &o;
    }
}
impl SubAssign<&Rat> for Rat {
    fn sub_assign(&mut self, o: &Rat) {
        *self = &*self - o;
    }
}
impl SubAssign<Rat> for Rat {
    fn sub_assign(&mut self, o: Rat) {
        *self = &*self - &o;
    }
}
impl MulAssign<&Rat> for Rat {
    fn mul_assign(&mut self, o: &Rat) {
        *self = &*self * o;
    }
}
impl std::iter::Sum for Rat {
    fn sum<I: Iterator<Item = Rat>>(iter: I) -> Rat {
        let mut s = Rat::zero();
        for x in iter {
            s += x;
        }
        s
    }
}

impl Default for Rat {
    fn default() -> Rat {
        Rat::zero()
    }
}

pub fn r(d: Decimal) -> Rat {
    Rat::from_dec(d)
}

#[cfg(test)]
mod tests {
    use super::*;
    use std::str::FromStr;
    #[test]
    fn basics() {
        let a = Rat::frac(1, 3);
        let b = Rat::frac(1, 6);
        assert_eq!(&a + &b, Rat::frac(1, 2));
        assert_eq!(&a - &b, Rat::frac(1, 6));
        assert_eq!(&a * &b, Rat::frac(1, 18));
        assert_eq!(&a / &b, Rat::int(2));
        assert!(a > b);
        assert_eq!(Rat::from_dec(Decimal::from_str("16.005").unwrap()), Rat::frac(16005, 1000));
        assert_eq!(Rat::frac(16005, 1000).round_half_away_scaled(2), BigInt::from(1601));
        assert_eq!(Rat::frac(-16005, 1000).round_half_away_scaled(2), BigInt::from(-1601));
        assert_eq!(Rat::frac(16004, 1000).round_half_away_scaled(2), BigInt::from(1600));
        assert_eq!(Rat::frac(-5, 1000).round_half_away_scaled(2), BigInt::from(-1));
        assert_eq!(Rat::frac(-4, 1000).round_half_away_scaled(2), BigInt::from(0));
        assert_eq!(Rat::frac(5, 2).show(), "2.5");
        assert_eq!(Rat::frac(-1, 8).show(), "-0.125");
    }
}
