//! Neutral, exact view of a TaxReport and tolerance-aware comparison of two reports (DESIGN §2.1).
use crate::observe::{Diff, rule_of};
use crate::rat::Rat;
use crate::refmodel::Rule;
use cgt_core::TaxReport;
use chrono::NaiveDate;
use std::collections::BTreeMap;

#[derive(Clone, Debug)]
pub struct LV {
    pub rule: Rule,
    pub acq: Option<NaiveDate>,
    pub qty: Rat,
    pub cost: Rat,
    pub gain: Rat,
}
#[derive(Clone, Debug)]
pub struct DV {
    pub date: NaiveDate,
    pub ticker: String,
    pub qty: Rat,
    pub gross: Rat,
    pub net: Rat,
    pub legs: Vec<LV>,
}
impl DV {
    pub fn cost(&self) -> Rat {
        self.legs.iter().map(|l| l.cost.clone()).sum()
    }
    pub fn gain(&self) -> Rat {
        self.legs.iter().map(|l| l.gain.clone()).sum()
    }
    pub fn merged(&self) -> BTreeMap<(Rule, Option<NaiveDate>), (Rat, Rat, Rat)> {
        let mut m: BTreeMap<(Rule, Option<NaiveDate>), (Rat, Rat, Rat)> = BTreeMap::new();
        for l in &self.legs {
            if l.qty.negligible() {
                continue;
            }
            let e = m.entry((l.rule, l.acq)).or_default();
            e.0 += &l.qty;
            e.1 += &l.cost;
            e.2 += &l.gain;
        }
        m
    }
}
#[derive(Clone, Debug)]
pub struct YV {
    pub year: i32,
    pub gain: Rat,
    pub loss: Rat,
    pub net: Rat,
    pub exempt: Rat,
    pub div: Rat,
    pub divtax: Rat,
    pub count: usize,
    pub gross_proceeds: Rat,
    pub taxable: Rat,
    pub disposals: Vec<DV>,
}
#[derive(Clone, Debug)]
pub struct RV {
    pub years: Vec<YV>,
    pub holdings: BTreeMap<String, (Rat, Rat)>,
}

pub fn view(rep: &TaxReport) -> RV {
    let mut years = vec![];
    for y in &rep.tax_years {
        let mut ds = vec![];
        for d in &y.disposals {
            ds.push(DV {
                date: d.date,
                ticker: d.ticker.clone(),
                qty: Rat::from_dec(d.quantity),
                gross: Rat::from_dec(d.gross_proceeds),
                net: Rat::from_dec(d.proceeds),
                legs: d
                    .matches
                    .iter()
                    .map(|m| {
                        let rule = rule_of(&m.rule);
                        LV { rule, acq: if rule == Rule::S104 { None } else { m.acquisition_date }, qty: Rat::from_dec(m.quantity), cost: Rat::from_dec(m.allowable_cost), gain: Rat::from_dec(m.gain_or_loss) }
                    })
                    .collect(),
            });
        }
        years.push(YV {
            year: y.period.start_year() as i32,
            gain: Rat::from_dec(y.total_gain),
            loss: Rat::from_dec(y.total_loss),
            net: Rat::from_dec(y.net_gain),
            exempt: Rat::from_dec(y.exempt_amount),
            div: Rat::from_dec(y.dividend_income),
            divtax: Rat::from_dec(y.dividend_tax_paid),
            count: y.disposal_count(),
            gross_proceeds: Rat::from_dec(y.gross_proceeds()),
            taxable: Rat::from_dec(y.taxable_gain(y.exempt_amount)),
            disposals: ds,
        });
    }
    let mut holdings = BTreeMap::new();
    for h in &rep.holdings {
        let e: &mut (Rat, Rat) = holdings.entry(h.ticker.clone()).or_default();
        e.0 += Rat::from_dec(h.quantity);
        e.1 += Rat::from_dec(h.total_cost);
    }
    RV { years, holdings }
}

#[derive(Clone, Copy, Debug, PartialEq, Eq, PartialOrd, Ord)]
pub enum Level {
    /// per-disposal figures (quantity, gross, net, Σcost, Σgain), year totals, holdings
    L1,
    /// + legs merged per (rule, acquisition date)
    L2,
    /// + the literal leg lists
    L3,
}

fn dd(clause: &'static str, detail: String) -> Diff {
    Diff { clause, detail }
}

pub struct CmpOpts {
    pub years: bool,
    pub holdings: bool,
    /// multiply quantities of `a` disposals by this factor before comparing (None = 1)
    pub label_a: &'static str,
    pub label_b: &'static str,
}
impl Default for CmpOpts {
    fn default() -> Self {
        CmpOpts { years: true, holdings: true, label_a: "variant", label_b: "reference" }
    }
}

pub fn diff_disposal(a: &DV, b: &DV, level: Level, la: &str, lb: &str, out: &mut Vec<Diff>) {
    let id = format!("{} {}", b.date, b.ticker);
    macro_rules! cmp {
        ($fa:expr, $fb:expr, $what:expr) => {
            if !$fa.close(&$fb) {
                out.push(dd("L1-figures", format!("disposal {id}: {} {la}={} {lb}={}", $what, $fa, $fb)));
            }
        };
    }
    cmp!(a.qty, b.qty, "quantity");
    cmp!(a.gross, b.gross, "gross proceeds");
    cmp!(a.net, b.net, "net proceeds");
    cmp!(a.cost(), b.cost(), "allowable cost");
    cmp!(a.gain(), b.gain(), "gain");
    if level >= Level::L2 {
        let (ma, mb) = (a.merged(), b.merged());
        let keys: std::collections::BTreeSet<_> = ma.keys().chain(mb.keys()).cloned().collect();
        for k in keys {
            let z = (Rat::zero(), Rat::zero(), Rat::zero());
            let (x, y) = (ma.get(&k).unwrap_or(&z), mb.get(&k).unwrap_or(&z));
            if !x.0.close(&y.0) || !x.1.close(&y.1) || !x.2.close(&y.2) {
                out.push(dd("L2-merged-legs", format!("disposal {id}: leg {:?}/{:?} {la}=(q {}, cost {}, gain {}) {lb}=(q {}, cost {}, gain {})", k.0, k.1, x.0, x.1, x.2, y.0, y.1, y.2)));
            }
        }
    }
    if level >= Level::L3 {
        let fa: Vec<&LV> = a.legs.iter().filter(|l| !l.qty.negligible()).collect();
        let fb: Vec<&LV> = b.legs.iter().filter(|l| !l.qty.negligible()).collect();
        let same = fa.len() == fb.len() && fa.iter().zip(fb.iter()).all(|(x, y)| x.rule == y.rule && x.acq == y.acq && x.qty.close(&y.qty) && x.cost.close(&y.cost) && x.gain.close(&y.gain));
        if !same {
            out.push(dd("L3-leg-lists", format!("disposal {id}: leg lists differ: {la}={:?} {lb}={:?}", fa.iter().map(|l| (l.rule, l.acq, l.qty.to_string())).collect::<Vec<_>>(), fb.iter().map(|l| (l.rule, l.acq, l.qty.to_string())).collect::<Vec<_>>())));
        }
    }
}

/// Compare two reports. Disposals are matched by (date, ticker) across years.
pub fn diff_reports(a: &RV, b: &RV, level: Level, o: &CmpOpts) -> Vec<Diff> {
    let mut out = vec![];
    let (la, lb) = (o.label_a, o.label_b);
    if o.years {
        let ya: Vec<i32> = a.years.iter().map(|y| y.year).collect();
        let yb: Vec<i32> = b.years.iter().map(|y| y.year).collect();
        if ya != yb {
            out.push(dd("L1-figures", format!("tax years listed differ: {la}={ya:?} {lb}={yb:?}")));
        }
        for (x, y) in a.years.iter().zip(b.years.iter()) {
            if x.year != y.year {
                continue;
            }
            for (fa, fb, what) in [(&x.gain, &y.gain, "total gain"), (&x.loss, &y.loss, "total loss"), (&x.net, &y.net, "net gain"), (&x.exempt, &y.exempt, "exemption"), (&x.div, &y.div, "dividend income"), (&x.divtax, &y.divtax, "dividend tax"), (&x.gross_proceeds, &y.gross_proceeds, "gross proceeds"), (&x.taxable, &y.taxable, "taxable gain")] {
                if !fa.close(fb) {
                    out.push(dd("L1-figures", format!("tax year {}: {what} {la}={} {lb}={}", x.year, fa, fb)));
                }
            }
            if x.count != y.count {
                out.push(dd("L1-figures", format!("tax year {}: disposal count {la}={} {lb}={}", x.year, x.count, y.count)));
            }
        }
    }
    let da: Vec<&DV> = a.years.iter().flat_map(|y| y.disposals.iter()).collect();
    let db: Vec<&DV> = b.years.iter().flat_map(|y| y.disposals.iter()).collect();
    let ka: Vec<(NaiveDate, &str)> = da.iter().map(|d| (d.date, d.ticker.as_str())).collect();
    let kb: Vec<(NaiveDate, &str)> = db.iter().map(|d| (d.date, d.ticker.as_str())).collect();
    if ka != kb {
        out.push(dd("L1-figures", format!("disposal lists differ: {la}={ka:?} {lb}={kb:?}")));
    } else {
        for (x, y) in da.iter().zip(db.iter()) {
            diff_disposal(x, y, level, la, lb, &mut out);
        }
    }
    if o.holdings {
        let keys: std::collections::BTreeSet<&String> = a.holdings.keys().chain(b.holdings.keys()).collect();
        for k in keys {
            let z = (Rat::zero(), Rat::zero());
            let (x, y) = (a.holdings.get(k).unwrap_or(&z), b.holdings.get(k).unwrap_or(&z));
            if !x.0.close(&y.0) || !x.1.close(&y.1) {
                out.push(dd("L1-figures", format!("holding {k}: {la}=({}, {}) {lb}=({}, {})", x.0, x.1, y.0, y.1)));
            }
        }
    }
    out
}
