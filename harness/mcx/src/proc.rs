//! Process-level driving of the real `cgt-tool` binary (built from /repo into /verif/target/repo) and of
//! `cgt-tool mcp` sessions. Each run gets a private scratch directory (cwd and HOME) under /verif/target/run.
use serde_json::Value;
use std::collections::BTreeMap;
use std::io::{BufRead, BufReader, Read, Write};
use std::path::{Path, PathBuf};
use std::process::{Child, ChildStdin, Command, Stdio};
use std::sync::atomic::{AtomicU64, Ordering};
use std::sync::mpsc::{Receiver, RecvTimeoutError, channel};
use std::time::{Duration, Instant};

pub const TOOL: &str = "/verif/target/repo/release/cgt-tool";
static COUNTER: AtomicU64 = AtomicU64::new(0);

pub fn tool_exists() -> bool {
    Path::new(TOOL).exists()
}

pub struct Scratch {
    pub dir: PathBuf,
}
impl Scratch {
    pub fn new() -> Scratch {
        let n = COUNTER.fetch_add(1, Ordering::SeqCst);
        let dir = PathBuf::from(format!("/verif/target/run/{}-{}", std::process::id(), n));
        let _ = std::fs::remove_dir_all(&dir);
        std::fs::create_dir_all(dir.join("home")).unwrap_or_else(|e| crate::run::machinery_failure(&format!("cannot create scratch dir: {e}")));
        Scratch { dir }
    }
    pub fn home(&self) -> PathBuf {
        self.dir.join("home")
    }
    pub fn path(&self, name: &str) -> PathBuf {
        self.dir.join(name)
    }
    pub fn write(&self, name: &str, content: &[u8]) -> PathBuf {
        let p = self.dir.join(name);
        if let Some(parent) = p.parent() {
            let _ = std::fs::create_dir_all(parent);
        }
        std::fs::write(&p, content).unwrap_or_else(|e| crate::run::machinery_failure(&format!("cannot write scratch file: {e}")));
        p
    }
    /// ./config.toml configuring an exemption of 3000 for every year 1900..=2100
    pub fn all_years_config(&self) {
        let mut s = String::from("[exemptions]\n");
        for y in 1900..=2100 {
            s += &format!("\"{y}\" = 3000\n");
        }
        self.write("config.toml", s.as_bytes());
    }
}
impl Drop for Scratch {
    fn drop(&mut self) {
        let _ = std::fs::remove_dir_all(&self.dir);
    }
}

#[derive(Debug, Clone)]
pub struct ProcOut {
    pub code: Option<i32>,
    pub signal: Option<i32>,
    pub stdout: Vec<u8>,
    pub stderr: Vec<u8>,
    pub timed_out: bool,
}
impl ProcOut {
    pub fn ok(&self) -> bool {
        self.code == Some(0) && !self.timed_out
    }
    pub fn out(&self) -> String {
        String::from_utf8_lossy(&self.stdout).into_owned()
    }
    pub fn err(&self) -> String {
        String::from_utf8_lossy(&self.stderr).into_owned()
    }
    /// "clean failure": exited by itself with a non-zero status that is not the panic status 101, no signal
    pub fn clean_failure(&self) -> bool {
        !self.timed_out && self.signal.is_none() && matches!(self.code, Some(c) if c != 0 && c != 101) && !self.err().contains("panicked at")
    }
}

pub fn run_tool(args: &[&str], sc: &Scratch, timeout: Duration) -> ProcOut {
    let mut cmd = Command::new(TOOL);
    cmd.args(args).current_dir(&sc.dir).env_clear().env("HOME", sc.home()).env("PATH", "/usr/bin:/bin").stdin(Stdio::null()).stdout(Stdio::piped()).stderr(Stdio::piped());
    let mut child = cmd.spawn().unwrap_or_else(|e| crate::run::machinery_failure(&format!("cannot spawn {TOOL}: {e} (run ./setup.sh)")));
    let mut so = child.stdout.take();
    let mut se = child.stderr.take();
    let t1 = std::thread::spawn(move || {
        let mut b = vec![];
        if let Some(s) = so.as_mut() {
            let _ = s.read_to_end(&mut b);
        }
        b
    });
    let t2 = std::thread::spawn(move || {
        let mut b = vec![];
        if let Some(s) = se.as_mut() {
            let _ = s.read_to_end(&mut b);
        }
        b
    });
    let deadline = Instant::now() + timeout;
    let mut timed_out = false;
    let status = loop {
        match child.try_wait() {
            Ok(Some(st)) => break Some(st),
            Ok(None) => {
                if Instant::now() > deadline {
                    timed_out = true;
                    let _ = child.kill();
                    break child.wait().ok();
                }
                std::thread::sleep(Duration::from_millis(2));
            }
            Err(_) => break None,
        }
    };
    let stdout = t1.join().unwrap_or_default();
    let stderr = t2.join().unwrap_or_default();
    use std::os::unix::process::ExitStatusExt;
    ProcOut { code: status.and_then(|s| s.code()), signal: status.and_then(|s| s.signal()), stdout, stderr, timed_out }
}

// ------------------------------------------------------------------------------------------------ MCP

pub struct Mcp {
    child: Child,
    stdin: Option<ChildStdin>,
    rx: Receiver<Option<Value>>,
    pub got: BTreeMap<String, Vec<Value>>,
    pub non_json_lines: Vec<String>,
    eof: bool,
}

fn id_key(v: &Value) -> String {
    match v.get("id") {
        Some(Value::Null) | None => "null".into(),
        Some(x) => x.to_string(),
    }
}

impl Mcp {
    pub fn start(sc: &Scratch) -> Mcp {
        let mut cmd = Command::new(TOOL);
        cmd.arg("mcp").current_dir(&sc.dir).env_clear().env("HOME", sc.home()).env("PATH", "/usr/bin:/bin").stdin(Stdio::piped()).stdout(Stdio::piped()).stderr(Stdio::null());
        let mut child = cmd.spawn().unwrap_or_else(|e| crate::run::machinery_failure(&format!("cannot spawn {TOOL} mcp: {e}")));
        let stdout = child.stdout.take().unwrap_or_else(|| crate::run::machinery_failure("no stdout"));
        let stdin = child.stdin.take();
        let (tx, rx) = channel();
        std::thread::spawn(move || {
            let r = BufReader::new(stdout);
            for line in r.lines() {
                match line {
                    Ok(l) => {
                        if l.trim().is_empty() {
                            continue;
                        }
                        let v = serde_json::from_str::<Value>(&l).unwrap_or(Value::String(l));
                        if tx.send(Some(v)).is_err() {
                            return;
                        }
                    }
                    Err(_) => break,
                }
            }
            let _ = tx.send(None);
        });
        let mut m = Mcp { child, stdin, rx, got: BTreeMap::new(), non_json_lines: vec![], eof: false };
        m.send_raw(r#"{"jsonrpc":"2.0","id":"init","method":"initialize","params":{"protocolVersion":"2024-11-05","capabilities":{},"clientInfo":{"name":"mc","version":"0"}}}"#);
        if !m.wait_for(&["\"init\"".to_string()], Duration::from_secs(10)) {
            crate::run::machinery_failure("MCP server did not answer initialize within 10 s");
        }
        m.send_raw(r#"{"jsonrpc":"2.0","method":"notifications/initialized"}"#);
        m
    }
    pub fn send_raw(&mut self, line: &str) {
        if let Some(s) = self.stdin.as_mut() {
            let _ = s.write_all(line.as_bytes());
            let _ = s.write_all(b"\n");
            let _ = s.flush();
        }
    }
    /// several requests in one write (pipelined)
    pub fn send_batch(&mut self, lines: &[String]) {
        if let Some(s) = self.stdin.as_mut() {
            let mut buf = String::new();
            for l in lines {
                buf += l;
                buf.push('\n');
            }
            let _ = s.write_all(buf.as_bytes());
            let _ = s.flush();
        }
    }
    fn absorb(&mut self, v: Option<Value>) {
        match v {
            None => self.eof = true,
            Some(Value::String(s)) => self.non_json_lines.push(s),
            Some(v) => {
                if v.get("method").is_some() && v.get("id").is_none() {
                    return; // server notification
                }
                self.got.entry(id_key(&v)).or_default().push(v);
            }
        }
    }
    /// wait until every id (JSON text of the id, e.g. "1" or "\"a\"") has at least one response; false on timeout/EOF
    pub fn wait_for(&mut self, ids: &[String], horizon: Duration) -> bool {
        let deadline = Instant::now() + horizon;
        loop {
            if ids.iter().all(|i| self.got.contains_key(i)) {
                return true;
            }
            if self.eof {
                return false;
            }
            let now = Instant::now();
            if now >= deadline {
                return false;
            }
            match self.rx.recv_timeout(deadline - now) {
                Ok(v) => self.absorb(v),
                Err(RecvTimeoutError::Timeout) => return false,
                Err(RecvTimeoutError::Disconnected) => {
                    self.eof = true;
                    return false;
                }
            }
        }
    }
    pub fn alive(&mut self) -> bool {
        matches!(self.child.try_wait(), Ok(None))
    }
    /// close stdin, wait for exit (5 s), drain remaining output; returns exit code (None = had to be killed)
    pub fn finish(mut self) -> (Option<i32>, BTreeMap<String, Vec<Value>>, Vec<String>) {
        self.stdin = None;
        let deadline = Instant::now() + Duration::from_secs(5);
        let code = loop {
            match self.child.try_wait() {
                Ok(Some(st)) => break st.code(),
                Ok(None) => {
                    if Instant::now() > deadline {
                        let _ = self.child.kill();
                        let _ = self.child.wait();
                        break None;
                    }
                    std::thread::sleep(Duration::from_millis(2));
                }
                Err(_) => break None,
            }
        };
        while !self.eof {
            match self.rx.recv_timeout(Duration::from_secs(2)) {
                Ok(v) => self.absorb(v),
                Err(_) => break,
            }
        }
        (code, std::mem::take(&mut self.got), std::mem::take(&mut self.non_json_lines))
    }
}
impl Drop for Mcp {
    fn drop(&mut self) {
        self.stdin = None;
        let _ = self.child.kill();
        let _ = self.child.wait();
    }
}

pub fn tool_call(id: &Value, name: &str, args: Value) -> String {
    serde_json::json!({"jsonrpc":"2.0","id":id,"method":"tools/call","params":{"name":name,"arguments":args}}).to_string()
}

/// text content of a tools/call result, or Err(error message) for a JSON-RPC error / isError result
pub fn tool_text(resp: &Value) -> Result<String, String> {
    if let Some(e) = resp.get("error") {
        return Err(e.get("message").and_then(|m| m.as_str()).unwrap_or("").to_string());
    }
    let r = &resp["result"];
    let text = r["content"].as_array().and_then(|a| a.first()).and_then(|c| c["text"].as_str()).unwrap_or("").to_string();
    if r["isError"].as_bool() == Some(true) { Err(text) } else { Ok(text) }
}
