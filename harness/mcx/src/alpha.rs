//! Event alphabets, transaction constructors and the multiset (ledger) enumerator.
use cgt_core::{Currency, CurrencyAmount, Operation, Transaction};
use chrono::NaiveDate;
use rayon::prelude::*;
use rust_decimal::Decimal;
use std::str::FromStr;

pub fn date(y: i32, m: u32, d: u32) -> NaiveDate {
    NaiveDate::from_ymd_opt(y, m, d).expect("valid date")
}
pub fn dec(s: &str) -> Decimal {
    Decimal::from_str(s).expect("valid decimal literal")
}
pub fn money(s: &str) -> CurrencyAmount {
    // "12.5" or "12.5 USD"
    let mut it = s.split_whitespace();
    let a = dec(it.next().expect("amount"));
    let c = it.next().map(|c| Currency::from_code(c).expect("currency")).unwrap_or(Currency::GBP);
    CurrencyAmount::new(a, c)
}
pub fn buy(d: NaiveDate, tk: &str, q: &str, p: &str, f: &str) -> Transaction {
    Transaction { date: d, ticker: tk.to_string(), operation: Operation::Buy { amount: dec(q), price: money(p), fees: money(f) } }
}
pub fn sell(d: NaiveDate, tk: &str, q: &str, p: &str, f: &str) -> Transaction {
    Transaction { date: d, ticker: tk.to_string(), operation: Operation::Sell { amount: dec(q), price: money(p), fees: money(f) } }
}
pub fn split(d: NaiveDate, tk: &str, r: &str) -> Transaction {
    Transaction { date: d, ticker: tk.to_string(), operation: Operation::Split { ratio: dec(r) } }
}
pub fn unsplit(d: NaiveDate, tk: &str, r: &str) -> Transaction {
    Transaction { date: d, ticker: tk.to_string(), operation: Operation::Unsplit { ratio: dec(r) } }
}
pub fn capret(d: NaiveDate, tk: &str, q: &str, total: &str, fees: &str) -> Transaction {
    Transaction { date: d, ticker: tk.to_string(), operation: Operation::CapReturn { amount: dec(q), total_value: money(total), fees: money(fees) } }
}
pub fn accum(d: NaiveDate, tk: &str, q: &str, total: &str, tax: &str) -> Transaction {
    Transaction { date: d, ticker: tk.to_string(), operation: Operation::Accumulation { amount: dec(q), total_value: money(total), tax_paid: money(tax) } }
}
pub fn dividend(d: NaiveDate, tk: &str, total: &str, tax: &str) -> Transaction {
    Transaction { date: d, ticker: tk.to_string(), operation: Operation::Dividend { total_value: money(total), tax_paid: money(tax) } }
}

#[derive(Clone, Copy, Debug, PartialEq, Eq, PartialOrd, Ord, Hash)]
pub enum Class {
    Buy,
    Sell,
    Corp,
    Adj,
    Div,
}
pub fn class_of(t: &Transaction) -> Class {
    match t.operation {
        Operation::Buy { .. } => Class::Buy,
        Operation::Sell { .. } => Class::Sell,
        Operation::Split { .. } | Operation::Unsplit { .. } => Class::Corp,
        Operation::CapReturn { .. } | Operation::Accumulation { .. } => Class::Adj,
        Operation::Dividend { .. } => Class::Div,
    }
}

fn amt(a: &CurrencyAmount) -> String {
    if a.currency == Currency::GBP { format!("{}", a.amount) } else { format!("{} {}", a.amount, a.currency.code()) }
}
/// Independent DSL printer (not the tool's) used for replays and process-level engines.
pub fn dsl_line(t: &Transaction) -> String {
    let d = t.date.format("%Y-%m-%d");
    match &t.operation {
        Operation::Buy { amount, price, fees } => {
            let mut s = format!("{d} BUY {} {} @ {}", t.ticker, amount, amt(price));
            if !fees.amount.is_zero() || fees.currency != Currency::GBP {
                s += &format!(" FEES {}", amt(fees));
            }
            s
        }
        Operation::Sell { amount, price, fees } => {
            let mut s = format!("{d} SELL {} {} @ {}", t.ticker, amount, amt(price));
            if !fees.amount.is_zero() || fees.currency != Currency::GBP {
                s += &format!(" FEES {}", amt(fees));
            }
            s
        }
        Operation::Dividend { total_value, tax_paid } => {
            let mut s = format!("{d} DIVIDEND {} TOTAL {}", t.ticker, amt(total_value));
            if !tax_paid.amount.is_zero() || tax_paid.currency != Currency::GBP {
                s += &format!(" TAX {}", amt(tax_paid));
            }
            s
        }
        Operation::Accumulation { amount, total_value, tax_paid } => {
            let mut s = format!("{d} ACCUMULATION {} {} TOTAL {}", t.ticker, amount, amt(total_value));
            if !tax_paid.amount.is_zero() || tax_paid.currency != Currency::GBP {
                s += &format!(" TAX {}", amt(tax_paid));
            }
            s
        }
        Operation::CapReturn { amount, total_value, fees } => {
            let mut s = format!("{d} CAPRETURN {} {} TOTAL {}", t.ticker, amount, amt(total_value));
            if !fees.amount.is_zero() || fees.currency != Currency::GBP {
                s += &format!(" FEES {}", amt(fees));
            }
            s
        }
        Operation::Split { ratio } => format!("{d} SPLIT {} RATIO {}", t.ticker, ratio),
        Operation::Unsplit { ratio } => format!("{d} UNSPLIT {} RATIO {}", t.ticker, ratio),
    }
}
pub fn dsl_text(txs: &[Transaction]) -> String {
    let mut s = String::new();
    for t in txs {
        s += &dsl_line(t);
        s.push('\n');
    }
    s
}

#[derive(Clone, Copy, Debug)]
pub struct Rules {
    /// the same event may be inserted twice (duplicated rows)
    pub allow_dup: bool,
    /// at most one BUY per (date, security)
    pub one_buy: bool,
    /// at most one SELL per (date, security)
    pub one_sell: bool,
    /// at most one SPLIT/UNSPLIT per (date, security)
    pub one_corp: bool,
    /// at most one CAPRETURN/ACCUMULATION per (date, security)
    pub one_adj: bool,
    /// DESIGN §3: no SPLIT/UNSPLIT on the date of a BUY/SELL/CAPRETURN/ACCUMULATION of that security,
    /// no CAPRETURN/ACCUMULATION on the date of a BUY/SELL of that security
    pub no_same_day_convention: bool,
}
impl Rules {
    pub const STRICT: Rules = Rules { allow_dup: false, one_buy: true, one_sell: true, one_corp: true, one_adj: true, no_same_day_convention: true };
}

pub struct Alphabet {
    pub name: String,
    pub evs: Vec<Transaction>,
    pub conflict: Vec<Vec<bool>>,
    pub rules: Rules,
}

fn class_rank(c: Class) -> u8 {
    match c {
        Class::Buy => 0,
        Class::Sell => 1,
        Class::Adj => 2,
        Class::Div => 3,
        Class::Corp => 4,
    }
}

impl Alphabet {
    pub fn new(name: &str, mut evs: Vec<Transaction>, rules: Rules) -> Alphabet {
        evs.sort_by(|a, b| {
            (a.date, &a.ticker, class_rank(class_of(a)), dsl_line(a)).cmp(&(b.date, &b.ticker, class_rank(class_of(b)), dsl_line(b)))
        });
        evs.dedup();
        let n = evs.len();
        let mut conflict = vec![vec![false; n]; n];
        for i in 0..n {
            for j in 0..n {
                conflict[i][j] = Self::conflicts(&evs[i], &evs[j], i == j, &rules);
            }
        }
        Alphabet { name: name.to_string(), evs, conflict, rules }
    }
    fn conflicts(a: &Transaction, b: &Transaction, same: bool, r: &Rules) -> bool {
        if same {
            return !r.allow_dup;
        }
        if a.date != b.date || a.ticker != b.ticker {
            return false;
        }
        let (ca, cb) = (class_of(a), class_of(b));
        if ca == cb {
            return match ca {
                Class::Buy => r.one_buy,
                Class::Sell => r.one_sell,
                Class::Corp => r.one_corp,
                Class::Adj => r.one_adj,
                Class::Div => false,
            };
        }
        if r.no_same_day_convention {
            let trade = |c: Class| matches!(c, Class::Buy | Class::Sell);
            if (ca == Class::Corp && (trade(cb) || cb == Class::Adj)) || (cb == Class::Corp && (trade(ca) || ca == Class::Adj)) {
                return true;
            }
            if (ca == Class::Adj && trade(cb)) || (cb == Class::Adj && trade(ca)) {
                return true;
            }
        }
        false
    }
    pub fn ledger(&self, idx: &[usize]) -> Vec<Transaction> {
        idx.iter().map(|&i| self.evs[i].clone()).collect()
    }
    pub fn describe(&self) -> serde_json::Value {
        serde_json::json!({
            "name": self.name,
            "size": self.evs.len(),
            "events": self.evs.iter().map(dsl_line).collect::<Vec<_>>(),
            "rules": format!("{:?}", self.rules),
        })
    }

    fn ok_next(&self, prefix: &[usize], next: usize) -> bool {
        prefix.iter().all(|&p| !self.conflict[p][next])
    }

    /// Visit every valid multiset (as a non-decreasing index sequence) with at most `max_n` events.
    /// Each multiset is visited exactly once (tree of insertions). `filter` may prune a subtree
    /// (returning false means: do not visit this state nor any extension of it).
    pub fn explore<S, I, V, M>(&self, max_n: usize, init: I, visit: V, merge: M) -> S
    where
        S: Send,
        I: Fn() -> S + Sync,
        V: Fn(&mut S, &[usize]) + Sync,
        M: Fn(S, S) -> S + Sync + Send,
    {
        let n = self.evs.len();
        let mut root = init();
        visit(&mut root, &[]);
        if max_n == 0 {
            return root;
        }
        // tasks: all valid prefixes of length <= split; a prefix shorter than `split` is visited alone,
        // a prefix of length `split` is visited together with its whole subtree.
        let split = max_n.min(3);
        let mut tasks: Vec<Vec<usize>> = Vec::new();
        fn gen_tasks(a: &Alphabet, cur: &mut Vec<usize>, split: usize, tasks: &mut Vec<Vec<usize>>) {
            if !cur.is_empty() {
                tasks.push(cur.clone());
            }
            if cur.len() >= split {
                return;
            }
            let start = *cur.last().unwrap_or(&0);
            for j in start..a.evs.len() {
                if a.ok_next(cur, j) {
                    cur.push(j);
                    gen_tasks(a, cur, split, tasks);
                    cur.pop();
                }
            }
        }
        let _ = n;
        gen_tasks(self, &mut Vec::new(), split, &mut tasks);
        let part = tasks
            .into_par_iter()
            .map(|pre| {
                let mut s = init();
                if pre.len() < split {
                    visit(&mut s, &pre);
                } else {
                    let mut cur = pre.clone();
                    self.dfs(&mut cur, max_n, &mut s, &visit);
                }
                s
            })
            .reduce(&init, &merge);
        merge(root, part)
    }

    fn dfs<S, V: Fn(&mut S, &[usize])>(&self, cur: &mut Vec<usize>, max_n: usize, s: &mut S, visit: &V) {
        visit(s, cur);
        if cur.len() >= max_n {
            return;
        }
        let start = *cur.last().unwrap_or(&0);
        for j in start..self.evs.len() {
            if self.ok_next(cur, j) {
                cur.push(j);
                self.dfs(cur, max_n, s, visit);
                cur.pop();
            }
        }
    }
}
