//! Reference recogniser for the DSL, written from the README grammar: split into lines on LF/CRLF/CR,
//! strip a '#' comment, tokenise on spaces/tabs. Independent of pest and of the tool's parser.
use cgt_core::{Currency, CurrencyAmount, Operation, Transaction};
use chrono::NaiveDate;
use rust_decimal::Decimal;
use std::str::FromStr;

#[derive(Debug, Clone, PartialEq)]
pub struct RefErr {
    /// 1-based line number (lines split on \r\n, \n, \r)
    pub line: usize,
    pub why: String,
}

pub fn split_lines(text: &str) -> Vec<&str> {
    let b = text.as_bytes();
    let mut out = vec![];
    let mut start = 0;
    let mut i = 0;
    while i < b.len() {
        if b[i] == b'\n' {
            out.push(&text[start..i]);
            i += 1;
            start = i;
        } else if b[i] == b'\r' {
            out.push(&text[start..i]);
            if i + 1 < b.len() && b[i + 1] == b'\n' {
                i += 2;
            } else {
                i += 1;
            }
            start = i;
        } else {
            i += 1;
        }
    }
    out.push(&text[start..]);
    out
}

fn is_decimal(tok: &str) -> bool {
    let mut parts = tok.split('.');
    let a = parts.next().unwrap_or("");
    let b = parts.next();
    if parts.next().is_some() {
        return false;
    }
    let digits = |s: &str| !s.is_empty() && s.bytes().all(|c| c.is_ascii_digit());
    digits(a) && b.map(digits).unwrap_or(true)
}

fn parse_dec(tok: &str) -> Result<Decimal, String> {
    if !is_decimal(tok) {
        return Err(format!("'{tok}' is not a decimal"));
    }
    Decimal::from_str(tok).map_err(|e| format!("decimal '{tok}' not representable: {e}"))
}

fn parse_date(tok: &str) -> Result<NaiveDate, String> {
    let b = tok.as_bytes();
    let ok_shape = b.len() == 10 && b[4] == b'-' && b[7] == b'-' && b.iter().enumerate().all(|(i, c)| i == 4 || i == 7 || c.is_ascii_digit());
    if !ok_shape {
        return Err(format!("'{tok}' is not a YYYY-MM-DD date"));
    }
    let y: i32 = tok[0..4].parse().map_err(|_| "year".to_string())?;
    let m: u32 = tok[5..7].parse().map_err(|_| "month".to_string())?;
    let d: u32 = tok[8..10].parse().map_err(|_| "day".to_string())?;
    let leap = (y % 4 == 0 && y % 100 != 0) || y % 400 == 0;
    let dim = match m {
        1 | 3 | 5 | 7 | 8 | 10 | 12 => 31,
        4 | 6 | 9 | 11 => 30,
        2 => {
            if leap {
                29
            } else {
                28
            }
        }
        _ => return Err(format!("month {m} out of range")),
    };
    if d < 1 || d > dim {
        return Err(format!("day {d} out of range for {y}-{m:02}"));
    }
    NaiveDate::from_ymd_opt(y, m, d).ok_or_else(|| "date not representable".to_string())
}

struct Toks<'a> {
    t: Vec<&'a str>,
    i: usize,
}
impl<'a> Toks<'a> {
    fn next(&mut self) -> Option<&'a str> {
        let r = self.t.get(self.i).copied();
        if r.is_some() {
            self.i += 1;
        }
        r
    }
    fn peek(&self) -> Option<&'a str> {
        self.t.get(self.i).copied()
    }
    fn money(&mut self) -> Result<CurrencyAmount, String> {
        let a = parse_dec(self.next().ok_or("amount expected")?)?;
        let mut cur = Currency::GBP;
        if let Some(p) = self.peek() {
            let up = p.to_ascii_uppercase();
            if p.len() == 3 && p.bytes().all(|c| c.is_ascii_alphabetic()) && up != "TAX" && up != "BUY" {
                cur = Currency::from_code(&up).ok_or(format!("unknown currency '{p}'"))?;
                self.i += 1;
            }
        }
        Ok(CurrencyAmount::new(a, cur))
    }
    fn kw(&mut self, k: &str) -> Result<(), String> {
        match self.next() {
            Some(t) if t.eq_ignore_ascii_case(k) => Ok(()),
            Some(t) => Err(format!("'{k}' expected, found '{t}'")),
            None => Err(format!("'{k}' expected, found end of line")),
        }
    }
    fn opt_clause(&mut self, k: &str) -> Result<CurrencyAmount, String> {
        match self.peek() {
            None => Ok(CurrencyAmount::new(Decimal::ZERO, Currency::GBP)),
            Some(t) if t.eq_ignore_ascii_case(k) => {
                self.i += 1;
                self.money()
            }
            Some(t) => Err(format!("unexpected '{t}'")),
        }
    }
    fn end(&self) -> Result<(), String> {
        match self.peek() {
            None => Ok(()),
            Some(t) => Err(format!("unexpected trailing '{t}'")),
        }
    }
}

fn parse_ticker(tok: Option<&str>) -> Result<String, String> {
    let t = tok.ok_or("ticker expected")?;
    if !t.is_empty() && t.bytes().all(|c| c.is_ascii_alphanumeric()) {
        Ok(t.to_ascii_uppercase())
    } else {
        Err(format!("'{t}' is not an alphanumeric ticker"))
    }
}

pub fn parse_line(line: &str) -> Result<Option<Transaction>, String> {
    let code = match line.find('#') {
        Some(i) => &line[..i],
        None => line,
    };
    let toks: Vec<&str> = code.split([' ', '\t']).filter(|s| !s.is_empty()).collect();
    if toks.is_empty() {
        return Ok(None);
    }
    let mut t = Toks { t: toks, i: 0 };
    let date = parse_date(t.next().unwrap_or(""))?;
    let kw = t.next().ok_or("command expected")?.to_ascii_uppercase();
    let ticker;
    let op = match kw.as_str() {
        "BUY" | "SELL" => {
            ticker = parse_ticker(t.next())?;
            let q = parse_dec(t.next().ok_or("quantity expected")?)?;
            t.kw("@")?;
            let p = t.money()?;
            let f = t.opt_clause("FEES")?;
            t.end()?;
            if kw == "BUY" { Operation::Buy { amount: q, price: p, fees: f } } else { Operation::Sell { amount: q, price: p, fees: f } }
        }
        "DIVIDEND" => {
            ticker = parse_ticker(t.next())?;
            t.kw("TOTAL")?;
            let v = t.money()?;
            let x = t.opt_clause("TAX")?;
            t.end()?;
            Operation::Dividend { total_value: v, tax_paid: x }
        }
        "ACCUMULATION" => {
            ticker = parse_ticker(t.next())?;
            let q = parse_dec(t.next().ok_or("quantity expected")?)?;
            t.kw("TOTAL")?;
            let v = t.money()?;
            let x = t.opt_clause("TAX")?;
            t.end()?;
            Operation::Accumulation { amount: q, total_value: v, tax_paid: x }
        }
        "CAPRETURN" => {
            ticker = parse_ticker(t.next())?;
            let q = parse_dec(t.next().ok_or("quantity expected")?)?;
            t.kw("TOTAL")?;
            let v = t.money()?;
            let f = t.opt_clause("FEES")?;
            t.end()?;
            Operation::CapReturn { amount: q, total_value: v, fees: f }
        }
        "SPLIT" | "UNSPLIT" => {
            ticker = parse_ticker(t.next())?;
            t.kw("RATIO")?;
            let r = parse_dec(t.next().ok_or("ratio expected")?)?;
            t.end()?;
            if kw == "SPLIT" { Operation::Split { ratio: r } } else { Operation::Unsplit { ratio: r } }
        }
        other => return Err(format!("unknown command '{other}'")),
    };
    Ok(Some(Transaction { date, ticker, operation: op }))
}

pub fn parse(text: &str) -> Result<Vec<Transaction>, RefErr> {
    let mut out = vec![];
    for (i, l) in split_lines(text).iter().enumerate() {
        match parse_line(l) {
            Ok(Some(t)) => out.push(t),
            Ok(None) => {}
            Err(why) => return Err(RefErr { line: i + 1, why }),
        }
    }
    Ok(out)
}
