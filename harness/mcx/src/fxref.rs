//! Independent reader of the bundled HMRC monthly rate files (plain text scan, no XML library, no cgt-money).
use crate::rat::Rat;
use rust_decimal::Decimal;
use std::collections::BTreeMap;
use std::str::FromStr;

pub const RATES_DIR: &str = "/repo/crates/cgt-money/resources/rates";

/// (code, year, month) -> foreign units per GBP. If a code occurs twice in a file the last one wins
/// (same as inserting entries in document order into a map).
pub type RateTable = BTreeMap<(String, i32, u32), Decimal>;

fn between<'a>(s: &'a str, open: &str, close: &str) -> Option<&'a str> {
    let i = s.find(open)? + open.len();
    let j = s[i..].find(close)? + i;
    Some(&s[i..j])
}

pub fn scan_xml(xml: &str) -> Vec<(String, Decimal)> {
    let mut out = vec![];
    let mut rest = xml;
    while let Some(i) = rest.find("<exchangeRate>") {
        let body_start = i + "<exchangeRate>".len();
        let Some(j) = rest[body_start..].find("</exchangeRate>") else { break };
        let body = &rest[body_start..body_start + j];
        if let (Some(code), Some(rate)) = (between(body, "<currencyCode>", "</currencyCode>"), between(body, "<rateNew>", "</rateNew>")) {
            if let Ok(r) = Decimal::from_str(rate.trim()) {
                out.push((code.trim().to_uppercase(), r));
            }
        }
        rest = &rest[body_start + j..];
    }
    out
}

pub fn load_bundled() -> RateTable {
    let mut t = RateTable::new();
    let rd = std::fs::read_dir(RATES_DIR).unwrap_or_else(|e| crate::run::machinery_failure(&format!("cannot read {RATES_DIR}: {e}")));
    for e in rd.flatten() {
        let p = e.path();
        if p.extension().and_then(|x| x.to_str()) != Some("xml") {
            continue;
        }
        let stem = p.file_stem().and_then(|s| s.to_str()).unwrap_or("").to_string();
        let mut it = stem.split('-');
        let (Some(y), Some(m)) = (it.next().and_then(|y| y.parse::<i32>().ok()), it.next().and_then(|m| m.parse::<u32>().ok())) else { continue };
        let xml = std::fs::read_to_string(&p).unwrap_or_default();
        for (code, rate) in scan_xml(&xml) {
            t.insert((code, y, m), rate);
        }
    }
    t
}

pub fn fx_fn(t: &RateTable) -> impl Fn(&str, i32, u32) -> Option<Rat> + '_ {
    move |c: &str, y: i32, m: u32| t.get(&(c.to_uppercase(), y, m)).map(|d| Rat::from_dec(*d))
}
