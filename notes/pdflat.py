import sys, json, subprocess, re, collections
from fractions import Fraction as Fr
from decimal import Decimal, ROUND_HALF_UP
def r2(x):
    d=Decimal(x.numerator)/Decimal(x.denominator); q=abs(d).quantize(Decimal('0.01'),rounding=ROUND_HALF_UP); return -q if d<0 else q
def dec(x): return format(Decimal(x.numerator)/Decimal(x.denominator),'f')
texts=[];ks=[]
for k in range(-100,101):
    gain=Fr(k,200); cost=Fr(1000)+Fr(1,200); proceeds=cost+gain
    texts.append(f"2024-01-01 BUY X 8 @ {dec(cost/8)}\n2024-06-01 SELL X 8 @ {dec(proceeds/8)}"); ks.append((gain,cost,proceeds))
out=subprocess.run(['/root/scratch/target-rc/debug/examples/runs'],input='\n'.join(json.dumps(t) for t in texts)+'\n',capture_output=True,text=True).stdout.splitlines()
st=collections.Counter(); ex={}
M=lambda s: Decimal(s.replace('£','').replace(',','').replace('−','-'))
for (gain,cost,proceeds),o in zip(ks,out):
    lines=json.loads(o)
    g=[l for l in lines if l.startswith('Gross Proceeds:')][0]; c=[l for l in lines if l.startswith('Cost:')][0]; r=[l for l in lines if l.startswith('Result:')][0]
    for name,line,true in (('pdf.gross',g,proceeds),('pdf.cost',c,cost),('pdf.result',r,gain)):
        shown=M(re.findall(r'[−-]?£[\d,]+\.\d\d',line)[-1]); ok=shown==r2(true)
        st[name+(':ok' if ok else ':WRONG')]+=1
        if not ok: ex.setdefault(name,(float(true),str(shown),line))
for k,v in sorted(st.items()): print(v,k)
for k,v in ex.items(): print(' e.g.',k,v)
