#!/usr/bin/env python3
import sys, json, itertools, subprocess, collections
binary=sys.argv[1]
M=['0','0.0000000000000000000000000001','1','100000000000000','79228162514264337593543950335']
lines=[]
for d,dn in (('2024-03-01','a'),('2024-03-10','b'),('2024-03-20','c')):
    for q in M:
        for p in M:
            lines.append(f"{d} BUY X {q} @ {p}")
            lines.append(f"{d} SELL X {q} @ {p}")
        lines.append(f"{d} BUY X 1 @ 1 FEES {q}")
        lines.append(f"{d} SPLIT X RATIO {q}"); lines.append(f"{d} UNSPLIT X RATIO {q}")
        lines.append(f"{d} CAPRETURN X {q} TOTAL 1"); lines.append(f"{d} CAPRETURN X 1 TOTAL {q}")
        lines.append(f"{d} ACCUMULATION X 1 TOTAL {q}"); lines.append(f"{d} DIVIDEND X TOTAL {q} TAX {q}")
print(len(lines),'lines',file=sys.stderr)
ledgers=[]
for n in (1,2,3):
    for c in itertools.combinations(lines,n):
        if len({l.split()[0] for l in c})==n: ledgers.append('\n'.join(c))
print(len(ledgers),'ledgers',file=sys.stderr)
out=subprocess.run([binary,'ledger'],input='\n'.join(json.dumps({"text":t}) for t in ledgers)+'\n',capture_output=True,text=True).stdout.splitlines()
stats=collections.Counter(); ex={}
for t,o in zip(ledgers,out):
    o=json.loads(o)
    if 'panic' in o:
        big=any(tok in('100000000000000','79228162514264337593543950335') for tok in t.split()); zero_ratio=('RATIO 0\n' in t+'\n'); tiny='0.0000000000000000000000000001' in t
        c=f"PANIC[{o['panic']}] big={int(big)} zeroratio={int(zero_ratio)} tiny={int(tiny)} valid={o.get('valid')}"
    elif 'err' in o: c='err'
    elif 'parse_err' in o: c='parse_err'
    else: c='ok'
    stats[c]+=1; ex.setdefault(c,t)
for k,v in sorted(stats.items()): print(v,k)
for k,t in ex.items():
    if k.startswith('PANIC'): print('---',k,'\n'+t)
