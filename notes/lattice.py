#!/usr/bin/env python3
import sys, json, subprocess, collections, re
from fractions import Fraction as Fr
from decimal import Decimal, ROUND_HALF_UP
binary=sys.argv[1]
def r2(x):  # half away from zero
    d=Decimal(x.numerator)/Decimal(x.denominator)
    q=abs(d).quantize(Decimal('0.01'),rounding=ROUND_HALF_UP)
    return -q if d<0 else q
texts=[]; ks=[]
for shift in (Fr(0),Fr(999990),Fr(1234560)):
  for k in range(-400,401):
    gain=Fr(k,200)  # multiples of 0.005
    cost=Fr(1000)+shift+Fr(1,200)   # cost itself on a midpoint: 1000.005 (+shift)
    proceeds=cost+gain
    # BUY 8 @ cost/8 ; SELL 8 @ proceeds/8
    p=cost/8; s=proceeds/8
    def dec(x): return format(Decimal(x.numerator)/Decimal(x.denominator),'f')
    texts.append(f"2024-01-01 BUY X 8 @ {dec(p)}\n2024-06-01 SELL X 8 @ {dec(s)}"); ks.append((gain,cost,proceeds))
out=subprocess.run([binary,'ledger'],input='\n'.join(json.dumps({"text":t,"plain":True}) for t in texts)+'\n',capture_output=True,text=True).stdout.splitlines()
st=collections.Counter(); ex={}
def money(s): return Decimal(s.replace('£','').replace(',',''))
for (gain,cost,proceeds),o in zip(ks,out):
    o=json.loads(o)
    if 'plain' not in o: st['ERR']+=1; continue
    j=o['json']; y=j['tax_years'][0]; d=y['disposals'][0]
    checks={'json.gross':(Decimal(d['gross_proceeds']),proceeds),'json.cost':(Decimal(d['matches'][0]['allowable_cost']),cost),'json.gain':(Decimal(d['matches'][0]['gain_or_loss']),gain),'json.total_gain':(Decimal(y['total_gain']),max(gain,0)),'json.total_loss':(Decimal(y['total_loss']),max(-gain,0))}
    pl=o['plain']
    m=re.search(r'Gross Proceeds: .* = (-?£[\d,.]+)',pl); checks['plain.gross']=(money(m.group(1)),proceeds)
    m=re.search(r'Cost: (-?£[\d,.]+)',pl); checks['plain.cost']=(money(m.group(1)),cost)
    m=re.search(r'Result: (-?£[\d,.]+)',pl); checks['plain.result']=(money(m.group(1).replace('-£','-').replace('£','')) if False else Decimal(m.group(1).replace('£','').replace(',','')),gain)
    for name,(shown,true) in checks.items():
        ok = shown==r2(true)
        st[name+(':ok' if ok else ':WRONG')]+=1
        if not ok: ex.setdefault(name,(str(true),float(true),str(shown)))
for k,v in sorted(st.items()): print(v,k)
for k,v in ex.items(): print('  e.g.',k,v)
