#!/usr/bin/env python3
import subprocess, json, sys, time, itertools, os, select, collections, concurrent.futures
B='/root/scratch/target-repo/release/cgt-tool'
INIT={"jsonrpc":"2.0","id":0,"method":"initialize","params":{"protocolVersion":"2024-11-05","capabilities":{},"clientInfo":{"name":"mc","version":"0"}}}
INITD={"jsonrpc":"2.0","method":"notifications/initialized"}
LED="2024-01-01 BUY X 10 @ 10\n2024-02-01 SELL X 4 @ 12 FEES 1"
def call(name,args): return {"method":"tools/call","params":{"name":name,"arguments":args}}
ALPHA={
 'parse_ok':call('parse_transactions',{"transactions":LED}),
 'calc_ok':call('calculate_report',{"transactions":LED}),
 'explain_ok':call('explain_matching',{"transactions":LED,"disposal_date":"2024-02-01","ticker":"x"}),
 'fx_ok':call('get_fx_rate',{"currency":"usd","year":2024,"month":3}),
 'todsl_ok':call('convert_to_dsl',{"transactions":json.dumps([{"date":"2024-01-15","ticker":"aapl","action":"buy","amount":"1","price":"2"}])}),
 'calc_uncovered':call('calculate_report',{"transactions":"2024-02-01 SELL X 4 @ 12"}),
 'calc_nofx':call('calculate_report',{"transactions":"2031-01-01 BUY X 10 @ 10 USD\n2031-02-01 SELL X 4 @ 12 USD"}),
 'calc_syntax':call('calculate_report',{"transactions":"2024-02-01 SELL X"}),
 'explain_baddate':call('explain_matching',{"transactions":LED,"disposal_date":"01/02/2024","ticker":"X"}),
 'badtype':call('get_fx_rate',{"currency":"USD","year":"x","month":3}),
 'missingarg':call('calculate_report',{}),
 'unknown_tool':call('nope',{}),
 'res_list':{"method":"resources/list"},
 'res_read_bad':{"method":"resources/read","params":{"uri":"cgt://nope"}},
}
def session(reqs, pattern, horizon=2.0):
    """reqs: list of (id, body); pattern[i]=True -> wait for response of previous before sending i"""
    p=subprocess.Popen([B,'mcp'],stdin=subprocess.PIPE,stdout=subprocess.PIPE,stderr=subprocess.DEVNULL,cwd='/root/scratch/t')
    got=collections.defaultdict(list); buf=b''
    def pump(until_ids,deadline):
        nonlocal buf
        while not all(i in got for i in until_ids):
            r,_,_=select.select([p.stdout],[],[],max(0,deadline-time.time()))
            if not r: return False
            chunk=os.read(p.stdout.fileno(),65536)
            if not chunk: return False
            buf+=chunk
            while b'\n' in buf:
                line,buf=buf.split(b'\n',1)
                if line.strip():
                    m=json.loads(line); got[m.get('id')].append(m)
        return True
    def send(objs): p.stdin.write(b''.join(json.dumps(o).encode()+b'\n' for o in objs)); p.stdin.flush()
    send([INIT]); pump([0],time.time()+5); send([INITD])
    batch=[]; sent=[]
    for i,(rid,body) in enumerate(reqs):
        if i>0 and pattern[i-1]:   # await previous before sending this one
            send(batch); batch=[]; pump(sent,time.time()+horizon)
        batch.append(dict(body,jsonrpc="2.0",id=rid)); sent.append(rid)
    send(batch); pump(sent,time.time()+horizon)
    alive=p.poll() is None
    p.stdin.close()
    try: rc=p.wait(timeout=5)
    except subprocess.TimeoutExpired: p.kill(); rc='hang'
    # drain
    rest=p.stdout.read()
    for line in (buf+rest).split(b'\n'):
        if line.strip(): m=json.loads(line); got[m.get('id')].append(m)
    return got,alive,rc
def body(m): m=dict(m); m.pop('id',None); return json.dumps(m,sort_keys=True)
if __name__=='__main__':
    K=int(sys.argv[1])
    solo={}
    for k,v in ALPHA.items():
        got,alive,rc=session([(1,v)],[])
        assert len(got[1])==1,(k,got); solo[k]=body(got[1][0]); 
        print(k,'->',solo[k][:110])
    jobs=[]
    for n in range(2,K+1):
        for seq in itertools.product(ALPHA,repeat=n):
            for pat in itertools.product([False,True],repeat=n-1):
                jobs.append((seq,pat))
    print(len(jobs),'sessions'); t=time.time(); bad=0
    def run(job):
        seq,pat=job
        got,alive,rc=session([(i+1,ALPHA[k]) for i,k in enumerate(seq)],pat)
        errs=[]
        for i,k in enumerate(seq):
            r=got.get(i+1,[])
            if len(r)!=1: errs.append(f'id{i+1}:{len(r)} responses')
            elif body(r[0])!=solo[k]: errs.append(f'id{i+1}: differs from solo')
        extra=[i for i in got if i not in range(0,len(seq)+1)]
        if extra: errs.append(f'extra ids {extra}')
        if not alive: errs.append('died before EOF')
        if rc!=0: errs.append(f'exit {rc}')
        return job,errs
    with concurrent.futures.ThreadPoolExecutor(16) as ex:
        for job,errs in ex.map(run,jobs):
            if errs: bad+=1; print('BAD',job,errs)
    print('done',len(jobs),'sessions in',round(time.time()-t,1),'s; bad',bad)
