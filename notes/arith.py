#!/usr/bin/env python3
import sys, json, itertools, subprocess, collections, datetime, os
sys.path.insert(0,'/root/scratch/proto')
from refmodel import parse, load_rates
from fractions import Fraction as Fr
binary=sys.argv[1]; N=int(sys.argv[2]); load_rates()
EPS=Fr(1,10**9)
E=["2022-01-10 BUY X 100 @ 10 FEES 3","2022-01-10 BUY Y 100 @ 5 USD FEES 1 USD",
   "2023-04-05 SELL X 5 @ 12 FEES 1","2023-04-05 SELL X 3 @ 9 FEES 2","2023-04-06 SELL X 4 @ 10","2023-04-06 SELL Y 10 @ 7 USD FEES 1 GBP",
   "2024-04-05 SELL Y 5 @ 2 USD","2024-04-06 SELL X 6 @ 10.03","2024-04-06 SELL Y 6 @ 5.01 USD FEES 0.5 USD",
   "2023-05-01 DIVIDEND X TOTAL 9 TAX 1","2023-05-02 DIVIDEND Y TOTAL 4 USD TAX 1 USD","2021-06-01 DIVIDEND X TOTAL 7","2024-05-01 DIVIDEND Y TOTAL 2"]
ledg=[c for n in range(2,N+1) for c in itertools.combinations(E,n) if E[0] in c or E[1] in c]
out=[json.loads(l) for l in subprocess.run([binary,'ledger'],input='\n'.join(json.dumps({"text":'\n'.join(c)}) for c in ledg)+'\n',capture_output=True,text=True,env=dict(os.environ,FX='1')).stdout.splitlines()]
EX={2021:12300,2022:12300,2023:6000,2024:3000}
def ty(d): return d.year if (d.month,d.day)>=(4,6) else d.year-1
st=collections.Counter(); ex={}
for c,o in zip(ledg,out):
    if 'disposals' not in o: st['err']+=1; continue
    txs=parse('\n'.join(c)); bad=[]
    sells=collections.defaultdict(lambda:[Fr(0),Fr(0),Fr(0)])
    for t in txs:
        if t['kind']=='SELL': a=sells[(str(t['date']),t['ticker'])]; a[0]+=t['qty']; a[1]+=t['qty']*t['price']; a[2]+=t['fees']
    got={(d['date'],d['ticker']):d for d in o['disposals']}
    if set(got)!=set(sells): bad.append('disposal-set')
    nets=collections.defaultdict(list)
    for k,d in got.items():
        q,g,f=sells[k]; legs=d['legs']
        if abs(Fr(d['qty'])-q)>EPS or abs(sum(Fr(l[1]) for l in legs)-q)>EPS: bad.append('quantity')
        if abs(Fr(d['gross'])-g)>EPS: bad.append('gross')
        if abs(Fr(d['net'])-(g-f))>EPS: bad.append('net')
        if abs(sum(Fr(l[4]) for l in legs)-((g-f)-sum(Fr(l[3]) for l in legs)))>EPS: bad.append('leg-gains')
        nets[d['year']].append(sum(Fr(l[4]) for l in legs))
    for y in o['years']:
        ns=nets[y['year']]; tg=sum(n for n in ns if n>0); tl=-sum(n for n in ns if n<0)
        if abs(Fr(y['gain'])-tg)>EPS: bad.append('total_gain')
        if abs(Fr(y['loss'])-tl)>EPS: bad.append('total_loss')
        if abs(Fr(y['net'])-(tg-tl))>EPS: bad.append('net_gain')
        if y['count']!=len(ns): bad.append('count')
        di=sum(t['total'] for t in txs if t['kind']=='DIVIDEND' and ty(t['date'])==y['year']); dt=sum(t['tax'] for t in txs if t['kind']=='DIVIDEND' and ty(t['date'])==y['year'])
        if abs(Fr(y['div'])-di)>EPS or abs(Fr(y['divtax'])-dt)>EPS: bad.append('dividends')
        if Fr(y['exempt'])!=EX[y['year']]: bad.append('exemption')
        if abs(Fr(y['taxable'])-max(Fr(0),tg-tl-EX[y['year']]))>EPS: bad.append('taxable')
    if [y['year'] for y in o['years']]!=sorted(nets): bad.append('years-listed')
    cl='ok' if not bad else 'BAD:'+','.join(sorted(set(bad)))
    st[cl]+=1; ex.setdefault(cl,(c,o))
print(len(ledg),'ledgers',dict(st))
for k,(c,o) in ex.items():
    if k.startswith('BAD'): print(k,'\n   '+'\n   '.join(c),'\n',json.dumps(o)[:700])
