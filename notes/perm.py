#!/usr/bin/env python3
import sys, json, itertools, subprocess, collections
from fractions import Fraction as Fr
binary=sys.argv[1]; N=int(sys.argv[2])
pool=[
 "2024-01-25 BUY X 20 @ 10 FEES 1",
 "2024-03-05 SELL X 6 @ 21 FEES 2",
 "2024-03-07 BUY X 4 @ 11",
 "2024-03-07 BUY X 4 @ 20 FEES 1",
 "2024-03-07 BUY Y 1 @ 1",
 "2024-03-07 SELL X 3 @ 23",
 "2024-03-07 SELL X 2 @ 25 FEES 1",
 "2024-03-07 SELL Y 1 @ 2",
]
EPS=Fr(1,10**9)
def canon(o,merge):
    if 'err' in o or 'panic' in o: return ('ERR',)
    ds=[]
    for d in o['disposals']:
        legs=[(l[0],l[2],Fr(l[1]),Fr(l[3]),Fr(l[4])) for l in d['legs']]
        if merge:
            m=collections.OrderedDict()
            for r,a,q,c,g in sorted(legs,key=lambda x:(x[0],x[1])):
                k=(r,a); v=m.get(k,(Fr(0),Fr(0),Fr(0))); m[k]=(v[0]+q,v[1]+c,v[2]+g)
            legs=[(k[0],k[1])+v for k,v in m.items()]
        ds.append((d['date'],d['ticker'],Fr(d['qty']),Fr(d['gross']),Fr(d['net']),legs))
    hs=[(h[0],Fr(h[1]),Fr(h[2])) for h in o['holdings'] if Fr(h[1])>EPS]
    return (ds,hs)
def close(a,b):
    if type(a)!=type(b): return False
    if isinstance(a,Fr): return abs(a-b)<=EPS
    if isinstance(a,(tuple,list)): return len(a)==len(b) and all(close(x,y) for x,y in zip(a,b))
    return a==b
stats=collections.Counter(); ex={}
bases=[c for n in range(2,N+1) for c in itertools.combinations(pool,n)]
texts=[]; idx=[]
for bi,b in enumerate(bases):
    for p in itertools.permutations(b):
        texts.append(';'.join(p)); idx.append(bi)
print(len(bases),'bases',len(texts),'orders',file=sys.stderr)
out=subprocess.run([binary],input='\n'.join(texts)+'\n',capture_output=True,text=True).stdout.splitlines()
res=collections.defaultdict(list)
for t,bi,o in zip(texts,idx,out): res[bi].append((t,json.loads(o)))
for bi,b in enumerate(bases):
    t0,o0=res[bi][0]
    strict0=canon(o0,False); merged0=canon(o0,True)
    cls='ok'
    def totals(o):
        c=canon(o,True)
        if c==('ERR',): return c
        return ([(d[0],d[1],d[2],d[3],d[4],sum(l[3] for l in d[5]),sum(l[4] for l in d[5])) for d in c[0]],c[1])
    tot0=totals(o0); lvl=0
    for t,o in res[bi][1:]:
        if not close(totals(o),tot0): lvl=3; w=(t0,t); break
        if not close(canon(o,True),merged0):
            if lvl<2: lvl=2; w=(t0,t)
        elif not close(canon(o,False),strict0):
            if lvl<1: lvl=1; w=(t0,t)
    cls=['ok','L3-partition','L2-LEG-FIGURES','L1-DISPOSAL-FIGURES'][lvl]
    twobuys=sum(1 for l in b if '03-07 BUY X' in l)>1; earlier='2024-03-05 SELL X 6 @ 21 FEES 2' in b; twosells=sum(1 for l in b if '03-07 SELL X' in l)>1
    cls+=f'[2buys={int(twobuys)},earlierSell={int(earlier)},2sells={int(twosells)}]'
    # predicates
    multi=any(sum(1 for l in b if l.split()[0]==d and l.split()[1]==k and l.split()[2]==s)>1 for d in {l.split()[0] for l in b} for k in ('BUY','SELL') for s in ('X','Y'))
    stats[cls]+=1
    if cls not in ex and not cls.startswith('ok'): ex[cls]=w
print(dict(stats))
for c,(a,b) in ex.items(): print(c,'\n  A:',a.replace(';','\n     '),'\n  B:',b.replace(';','\n     '))
