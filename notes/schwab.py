#!/usr/bin/env python3
import sys, json, itertools, subprocess, collections
binary=sys.argv[1]; K=int(sys.argv[2])
def row(date,action,sym='XYZ',q='',p='',f='',amt='',desc='d'): return {"Date":date,"Action":action,"Symbol":sym,"Description":desc,"Quantity":q,"Price":p,"Fees & Comm":f,"Amount":amt}
D1,D2,D3='03/05/2024','03/07/2024','03/07/2024 as of 03/05/2024'
ROWS={
 'buy1':row(D1,'Buy',q='10',p='$1,000.50',f='$1.00',amt='-$10,006.00'),
 'buy2':row(D2,'Buy',q='3.5',p='9',f='',amt=''),
 'sell1':row(D1,'Sell',q='5',p='$10.00',f='$0.10',amt='$49.90'),
 'sell2':row(D2,'Sell',q='5',p='$10.00',f='--',amt='$50'),
 'cancel1':row(D3,'Cancel Sell',q='5',p='$10.00',f='',amt='-$50.00'),
 'cancel2':row(D2,'Cancel Sell',q='5',p='$10.00',f='',amt='-$50.00'),
 'div1':row(D1,'Cash Dividend',amt='$20.00'),
 'qdiv2':row(D2,'Qualified Dividend',amt='$5.00'),
 'wh1':row(D1,'NRA Withholding',amt='-$3.00'),
 'adj2':row(D2,'NRA Tax Adj',amt='-$1.00'),
 'split':row(D2,'Stock Split',q='10'),
 'wire':row(D1,'Wire Sent',sym='',amt='-$100'),
 'foo':row(D2,'Foo Bar',desc='free # text'),
 'foo_nl':row(D2,'Foo Bar',desc='a\nb'),
 'rsu':row(D1,'Stock Plan Activity',q='10'),
 'divblank':row(D1,'Cash Dividend',amt=''),
}
names=list(ROWS)
cases=[]; meta=[]
for n in range(1,K+1):
    for seq in itertools.product(names,repeat=n):
        cases.append({"tx":{"BrokerageTransactions":[ROWS[x] for x in seq]}}); meta.append(seq)
print(len(cases),'exports',file=sys.stderr)
out=subprocess.run([binary,'convert'],input='\n'.join(json.dumps(c) for c in cases)+'\n',capture_output=True,text=True).stdout.splitlines()
stats=collections.Counter(); ex={}
from fractions import Fraction as Fr
def expected(seq):
    """reference: multiset of trades, dividend totals, #others"""
    trades=collections.Counter(); div=collections.Counter(); tax=collections.Counter(); other=0; cancels=[]
    for x in seq:
        r=ROWS[x]; d='2024-03-05' if ('03/05' in r['Date'].split('as of')[-1]) else '2024-03-07'
        a=r['Action']
        if a in('Buy','Sell'): trades[(a.upper(),d,r['Quantity'],r['Price'].replace('$','').replace(',',''))]+=1
        elif a=='Cancel Sell': cancels.append(('SELL',d,r['Quantity'],r['Price'].replace('$','')))
        elif a in('Cash Dividend','Qualified Dividend'):
            if r['Amount']: div[d]+=Fr(r['Amount'].replace('$',''))
            else: other+=1   # dividend row with blank amount: relevant? ambiguous
        elif a in('NRA Withholding','NRA Tax Adj'): tax[d]+=abs(Fr(r['Amount'].replace('$','')))
        elif a=='Stock Plan Activity': return None
        else: other+=1
    unmatched=0
    for c in cancels:
        if trades[c]>0: trades[c]-=1
        else: unmatched+=1
    return trades,div,tax,other,unmatched
for seq,o in zip(meta,out):
    o=json.loads(o); e=expected(seq)
    if e is None: cl='ok-rsu-err' if 'err' in o else 'RSU-WITHOUT-AWARDS-CONVERTED'
    elif 'err' in o: cl='ERR'
    elif o['parsed'] is None: cl='OUTPUT-NOT-DSL[nl]' if 'foo_nl' in seq else 'OUTPUT-NOT-DSL'
    else:
        trades,div,tax,other,unmatched=e
        got=collections.Counter(); gdiv=collections.Counter(); gtax=collections.Counter()
        for t in o['parsed']:
            if t['action'] in('BUY','SELL'): got[(t['action'],t['date'],str(t['amount']),t['price']['amount'])]+=1
            elif t['action']=='DIVIDEND': gdiv[t['date']]+=Fr(t['total_value']['amount']); gtax[t['date']]+=Fr(t['tax_paid']['amount'])
        exp_tr=collections.Counter({(k[0],k[1],k[2],k[3]):v for k,v in trades.items() if v>0})
        norm=lambda c: collections.Counter({(a,d,str(Fr(q)),str(Fr(p))):v for (a,d,q,p),v in c.items()})
        cl='ok'
        if norm(got)!=norm(exp_tr): cl='TRADES-DIFFER' + ('[nl]' if 'foo_nl' in seq else '')
        elif +gdiv!=+div: cl='DIV-TOTAL'
        else:
            # withholding on a day with dividends must be kept; on a day without -> must be surfaced
            lost=[d for d in tax if tax[d]!=gtax[d]]
            if lost:
                cl='WITHHOLDING-LOST[no-div-that-day]' if all(div[d]==0 for d in lost) else 'WITHHOLDING-LOST'
                # surfaced?
                if cl.startswith('WITHHOLDING-LOST[no') and (o['skipped']>other or any('ithhold' in w or 'NRA' in w for w in o['warnings'])): cl='ok-withholding-surfaced'
            elif o['skipped']<other: cl='SKIPPED-UNDERCOUNT'
    stats[cl]+=1; ex.setdefault(cl,(seq,o))
print(dict(stats))
for k,(s,o) in ex.items():
    if k[0].isupper(): print(k,s,json.dumps(o)[:400])
