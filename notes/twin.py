#!/usr/bin/env python3
import sys, json, itertools, subprocess, collections, datetime
from fractions import Fraction as Fr
from decimal import Decimal
sys.path.insert(0,'/root/scratch/proto')
binary=sys.argv[1]; N=int(sys.argv[2]); RAT=sys.argv[3] if len(sys.argv)>3 else '2'
EPS=Fr(1,10**9)
base=datetime.date(2024,3,5)
E=[]
for i,o in enumerate((-40,0,2,20,45)):
    d=base+datetime.timedelta(days=o)
    E.append(f"{d} BUY X 10 @ {10+i} FEES 1"); E.append(f"{d} SELL X 4 @ {20+i} FEES 2"); E.append(f"{d} SELL X 12 @ {20+i}")
for o in (-20,1,10,30):
    d=base+datetime.timedelta(days=o)
    E.append(f"{d} SPLIT X RATIO {RAT}"); E.append(f"{d} UNSPLIT X RATIO {RAT}"); E.append(f"{d} CAPRETURN X 10 TOTAL 5"); E.append(f"{d} ACCUMULATION X 10 TOTAL 7")
def okc(c):
    seen=set()
    for l in c:
        k=tuple(l.split()[:2]) if l.split()[1] in('SPLIT','UNSPLIT','CAPRETURN','ACCUMULATION') else tuple(l.split()[:2])
        k=(l.split()[0], 'T' if l.split()[1] in('BUY','SELL') else 'E', l.split()[1] if l.split()[1] in('BUY','SELL') else '')
        if k in seen: return False
        seen.add(k)
    return sum(1 for l in c if 'SPLIT' in l)==1
def dec(x): return format(Decimal(x.numerator)/Decimal(x.denominator),'f')
def twin(c):
    sp=[l for l in c if 'SPLIT' in l][0]; sd=sp.split()[0]; r=Fr(sp.split()[4]); 
    if 'UNSPLIT' in sp: r=1/r
    out=[]
    for l in c:
        if l is sp: continue
        t=l.split()
        if t[0]<sd and t[1] in('BUY','SELL'):
            t[3]=dec(Fr(t[3])*r); t[5]=dec(Fr(t[5])/r)
        elif t[0]<sd and t[1] in('CAPRETURN','ACCUMULATION'):
            t[3]=dec(Fr(t[3])*r)
        out.append(' '.join(t))
    return out,sd,r
ledg=[c for n in range(2,N+1) for c in itertools.combinations(E,n) if okc(c)]
texts=[]
for c in ledg:
    t,sd,r=twin(c); texts+=['\n'.join(c),'\n'.join(t)]
out=[json.loads(l) for l in subprocess.run([binary,'ledger'],input='\n'.join(json.dumps({"text":t}) for t in texts)+'\n',capture_output=True,text=True).stdout.splitlines()]
st=collections.Counter(); ex={}
def close(a,b):
    if type(a)!=type(b): return False
    if isinstance(a,Fr): return abs(a-b)<=EPS
    if isinstance(a,(tuple,list)): return len(a)==len(b) and all(close(x,y) for x,y in zip(a,b))
    return a==b
for i,c in enumerate(ledg):
    a,b=out[2*i],out[2*i+1]; _,sd,r=twin(c)
    if ('disposals' in a)!=('disposals' in b): cl='ACCEPTANCE-DIFFERS'
    elif 'disposals' not in a: cl='ok-both-err'
    else:
        def view(o,scale):
            D=[]
            for d in o['disposals']:
                f=r if (scale and d['date']<sd) else 1
                legs=sorted((l[0],l[2],Fr(l[1])*f,Fr(l[3]),Fr(l[4])) for l in d['legs'] if Fr(l[1])>EPS)
                D.append((d['date'],Fr(d['qty'])*f,Fr(d['gross']),Fr(d['net']),legs))
            return D,[(h[0],Fr(h[1]),Fr(h[2])) for h in o['holdings'] if Fr(h[1])>EPS]
        cl='ok' if close(view(a,True),view(b,False)) else 'FIGURES-DIFFER'
    has_ev=any(k in l for l in c for k in('CAPRETURN','ACCUM'))
    st[cl+('[ev]' if has_ev else '')]+=1; ex.setdefault(cl+('[ev]' if has_ev else ''),(c,a,b))
print(len(ledg),'ledgers',dict(st))
for k,(c,a,b) in ex.items():
    if k[0].isupper(): print(k,'\n   '+'\n   '.join(c),'\n  A',json.dumps(a)[:260],'\n  B',json.dumps(b)[:260])
