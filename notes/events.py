#!/usr/bin/env python3
import sys, json, itertools, subprocess, datetime, collections
sys.path.insert(0,'/root/scratch/proto')
from refmodel import parse
from fractions import Fraction as Fr
N=int(sys.argv[1]); binary=sys.argv[2]
base=datetime.date(2024,3,5)
offs=[-40,-20,0,5,10,45]
events=[]
for i,o in enumerate(offs):
    d=base+datetime.timedelta(days=o)
    events.append((d,'B',f"{d} BUY X 10 @ {10+i} FEES 1"))
    for q in ('4','10'): events.append((d,'S',f"{d} SELL X {q} @ {20+i} FEES 2"))
    events.append((d,'K',f"{d} SPLIT X RATIO 2")); events.append((d,'K',f"{d} UNSPLIT X RATIO 2"))
    events.append((d,'E',f"{d} CAPRETURN X 10 TOTAL 5")); events.append((d,'E',f"{d} CAPRETURN X 10 TOTAL 6 FEES 1")); events.append((d,'E',f"{d} CAPRETURN X 10 TOTAL 500"))
    events.append((d,'E',f"{d} ACCUMULATION X 10 TOTAL 7"))
    events.append((d,'D',f"{d} DIVIDEND X TOTAL 3 TAX 1"))
def ok(combo):
    seen=set()
    for d,k,_ in combo:
        if k in 'BS' and (d,k) in seen: return False
        seen.add((d,k))
    T={d for d,k,_ in combo if k in 'BS'}; K={d for d,k,_ in combo if k=='K'}; E={d for d,k,_ in combo if k=='E'}
    if T&K or T&E or K&E: return False
    if len([1 for d,k,_ in combo if k=='K'])!=len(K): return False
    return True
ledgers=[]
for n in range(1,N+1):
    for combo in itertools.combinations(events,n):
        if ok(combo): ledgers.append(';'.join(l for _,_,l in combo))
print(len(events),'events',len(ledgers),'ledgers',file=sys.stderr)
p=subprocess.run([binary],input='\n'.join(ledgers)+'\n',capture_output=True,text=True)
outs=p.stdout.splitlines(); assert len(outs)==len(ledgers)
EPS=Fr(1,10**9); stats=collections.Counter(); ex={}
for led,o in zip(ledgers,outs):
    o=json.loads(o); txs=parse(led.replace(';','\n')); txs.sort(key=lambda t:t['date'])
    # exact position and coverage, event effect
    pos=Fr(0); cov=True; base_cost=Fr(0); must=Fr(0); may=Fr(0); spent=Fr(0); huge_refuse=False; evs=[]; small_with_pos=False
    for d in sorted({t['date'] for t in txs}):
        day=[t for t in txs if t['date']==d]
        for t in day:
            if t['kind'] in('CAPRETURN','ACCUMULATION'):
                amt=(t['total']-t['fees']) if t['kind']=='CAPRETURN' else t['total']
                sgn=-1 if t['kind']=='CAPRETURN' else 1
                if pos>0: must+=sgn*amt
                else: may+=sgn*amt
                if t['kind']=='CAPRETURN' and amt>spent and pos>0: huge_refuse=True
                if t['kind']=='CAPRETURN' and pos>0 and amt<=6: small_with_pos=True
                if t['kind']=='ACCUMULATION' and pos>0: spent+=amt
        for t in day:
            if t['kind']=='BUY': pos+=t['qty']; base_cost+=t['qty']*t['price']+t['fees']; spent+=t['qty']*t['price']+t['fees']
        for t in day:
            if t['kind']=='SELL':
                pos-=t['qty']
                if pos<0: cov=False
        for t in day:
            if t['kind']=='SPLIT': pos*=t['ratio']
            if t['kind']=='UNSPLIT': pos/=t['ratio']
    has_ev=any(t['kind'] in('CAPRETURN','ACCUMULATION') for t in txs)
    if 'panic' in o: c='PANIC'
    elif 'err' in o:
        if not cov: c='ok-reject-uncovered'
        elif 'CAPRETURN' in o['err']: c='refused-capreturn' + ('-HUGE' if huge_refuse else ('-SMALL-WITH-POSITION' if small_with_pos and not any(t['kind']=='CAPRETURN' and t['total']>100 for t in txs) else '-other'))
        else: c='REFUSED-COVERED'
    elif not cov: c='ACCEPTED-UNCOVERED'
    else:
        tot=sum(Fr(l[3]) for d in o['disposals'] for l in d['legs'])+sum(Fr(h[2]) for h in o['holdings'])
        neg=any(Fr(l[3])<-EPS for d in o['disposals'] for l in d['legs']) or any(Fr(h[2])<-EPS for h in o['holdings'])
        if huge_refuse: c='ACCEPTED-HUGE-RETURN'
        elif neg: c='NEGATIVE-COST'
        elif abs(tot-(base_cost+must))<=EPS: c='ok-conserved'
        elif may!=0 and abs(tot-(base_cost+must+may))<=EPS: c='ok-conserved-with-may'
        else: c='COST-NOT-CONSERVED'
    kinds=[t['kind'] for t in txs]
    def p5():
        for i,a in enumerate(txs):
            if a['kind'] in('SPLIT','UNSPLIT'):
                for j in range(i+1,len(txs)):
                    if txs[j]['kind']=='SELL' and txs[j]['date']>a['date']:
                        for k in range(j+1,len(txs)):
                            if txs[k]['kind'] in('CAPRETURN','ACCUMULATION') and txs[k]['date']>txs[j]['date']: return True
        return False
    if c.isupper() or 'SMALL' in c: c=c+('[P5class]' if p5() else '[outside]')
    stats[c]+=1
    if c not in ex: ex[c]=(led,o)
print(dict(stats))
for c,(l,o) in ex.items():
    if c.isupper() or c.startswith('refused') : print(c,'\n  ',l.replace(';','\n   '),'\n  ',json.dumps(o)[:500])
