#!/usr/bin/env python3
import sys, json, itertools, subprocess, collections
binary=sys.argv[1]; K=int(sys.argv[2])
bases=[
 "2024-01-15 BUY AAPL 100 @ 150","2024-01-15 BUY AAPL 100 @ 150 USD","2024-01-15 BUY AAPL 100 @ 150 FEES 3","2024-01-15 BUY AAPL 100 @ 150 USD FEES 3","2024-01-15 BUY AAPL 100 @ 150 FEES 3 EUR","2024-01-15 SELL AAPL 1.5 @ 150.25 USD FEES 3 EUR",
 "2024-01-15 DIVIDEND AAPL TOTAL 5","2024-01-15 DIVIDEND AAPL TOTAL 5 USD TAX 1","2024-01-15 DIVIDEND AAPL TOTAL 5 TAX 1 USD",
 "2024-01-15 ACCUMULATION AAPL 10 TOTAL 5","2024-01-15 ACCUMULATION AAPL 10 TOTAL 5 USD TAX 1 USD",
 "2024-01-15 CAPRETURN AAPL 10 TOTAL 5","2024-01-15 CAPRETURN AAPL 10 TOTAL 5 USD FEES 1",
 "2024-01-15 SPLIT AAPL RATIO 2","2024-01-15 UNSPLIT AAPL RATIO 2.5"]
def deviations(tokens):
    """yield (name, function(tokens,gaps,end)->(tokens,gaps,end)) single deviations"""
    devs=[]
    n=len(tokens)
    for i in range(n-1):
        for g,nm in (("  ","2sp"),("\t","tab"),(" \t ","sptabsp")):
            devs.append((f"gap{i}:{nm}",('gap',i,g)))
    for i,t in enumerate(tokens):
        if t.isalpha():
            devs.append((f"lower{i}",('tok',i,t.lower())))
            devs.append((f"mixed{i}",('tok',i,t[0].lower()+t[1:].upper() if len(t)>1 else t.lower())))
    for e,nm in ((" ","trailsp"),(" # c","cmt"),("#c","cmtnosp"),(" # BUY X 1 @ 1","cmtkw"),("\t","trailtab")):
        devs.append((f"end:{nm}",('end',0,e)))
    return devs
def render(tokens,gaps,end): 
    s=tokens[0]
    for g,t in zip(gaps,tokens[1:]): s+=g+t
    return s+end
texts=[]; meta=[]
for b in bases:
    toks=b.split(' ')
    devs=deviations(toks)
    for k in range(0,K+1):
        for combo in itertools.combinations(devs,k):
            # no two deviations on the same slot
            slots=[(d[1][0],d[1][1]) for d in combo]
            if len(set(slots))<len(slots): continue
            t=list(toks); g=[" "]*(len(toks)-1); e=""
            for _,(kind,i,v) in combo:
                if kind=='gap': g[i]=v
                elif kind=='tok': t[i]=v
                else: e=v
            line=render(t,g,e)
            for sep,final,nm in (("\n",True,"LF"),("\n",False,"LF-nofinal"),("\r\n",True,"CRLF"),("\r",True,"CR"),("\r",False,"CR-nofinal")):
                pass
                # 2-line file: deviated line + canonical second line
                text=line+sep+"2024-02-01 SELL AAPL 1 @ 2"+(sep if final else "")
                texts.append(text); meta.append((b,[c[0] for c in combo],nm,'first'))
                text="2024-02-01 SELL AAPL 1 @ 2"+sep+line+(sep if final else "")
                texts.append(text); meta.append((b,[c[0] for c in combo],nm,'last'))
print(len(texts),'texts',file=sys.stderr)
p=subprocess.run([binary],input='\n'.join(json.dumps(t) for t in texts)+'\n',capture_output=True,text=True)
outs=[json.loads(l) for l in p.stdout.splitlines()]; assert len(outs)==len(texts)
canon={}
for b in bases:
    q=subprocess.run([binary],input=json.dumps(b+"\n")+'\n',capture_output=True,text=True); canon[b]=json.loads(q.stdout)['ok'][0]
stats=collections.Counter(); ex={}
for t,m,o in zip(texts,meta,outs):
    if 'panic' in o: c='PANIC'
    elif 'err' in o: c='REJECTED'
    else:
        txs=o['ok']; want=canon[m[0]]
        got=txs[0] if m[3]=='first' else (txs[1] if len(txs)>1 else None)
        c='ok' if len(txs)==2 and got==want else 'WRONG-VALUE'
    stats[c]+=1
    if c!='ok':
        key=(c,tuple(sorted(x.split(':')[-1] if x.startswith('end') else x.rstrip('0123456789') for x in m[1])),m[2],m[3])
        ex.setdefault(key,(t,o))
print(dict(stats))
for k,(t,o) in list(ex.items())[:40]: print(k, json.dumps(t), str(o)[:80])
print(len(ex),'distinct failure signatures')
