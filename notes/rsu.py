#!/usr/bin/env python3
import sys, json, itertools, subprocess, collections, datetime
binary=sys.argv[1]
OFFS=list(range(-9,3))
def us(d): return d.strftime('%m/%d/%Y')
cases=[]; meta=[]
for dep in (datetime.date(2024,1,3),datetime.date(2024,3,4),datetime.date(2023,3,3),datetime.date(2025,1,1)):
    for mask in range(1<<len(OFFS)):
        offs=[o for i,o in enumerate(OFFS) if mask>>i&1]
        for kind in ('vest','fallback'):
            if kind=='fallback' and mask%7: continue   # thin out
            tx=[]
            for o in offs:
                d=dep+datetime.timedelta(days=o); fmv=f"${100+o+9}.00"
                if kind=='vest': tx.append({"Date":us(d+datetime.timedelta(days=2)),"Action":"Deposit","Symbol":"Xyz","TransactionDetails":[{"Details":{"VestDate":us(d),"VestFairMarketValue":fmv,"FairMarketValuePrice":"$1.00"}}]})
                else: tx.append({"Date":us(d),"Action":"Deposit","Symbol":"XYZ","TransactionDetails":[{"Details":{"FairMarketValuePrice":fmv}}]})
            aw={"Transactions":tx}
            t={"BrokerageTransactions":[{"Date":us(dep),"Action":"Stock Plan Activity","Symbol":"xyZ","Description":"d","Quantity":"10","Price":"","Fees & Comm":"","Amount":""}]}
            cases.append({"tx":t,"awards":aw}); meta.append((dep,tuple(offs),kind))
print(len(cases),'cases',file=sys.stderr)
out=subprocess.run([binary,'convert'],input='\n'.join(json.dumps(c) for c in cases)+'\n',capture_output=True,text=True).stdout.splitlines()
stats=collections.Counter(); ex={}
for (dep,offs,kind),o in zip(meta,out):
    o=json.loads(o)
    cand=[x for x in offs if -7<=x<=0]
    exp=max(cand) if cand else None
    if 'err' in o:
        cl='ok-err' if exp is None and 'XYZ'.lower() in o['err'].lower() and str(dep) in o['err'] else ('ERR-UNEXPECTED' if exp is not None else 'ERR-MSG')
    elif 'panic' in o: cl='PANIC'
    else:
        buys=[t for t in (o['parsed'] or []) if t['action']=='BUY']
        if exp is None: cl='CONVERTED-WITHOUT-ENTRY'
        elif len(buys)!=1: cl='BUY-COUNT'
        else:
            b=buys[0]; d=dep+datetime.timedelta(days=exp)
            okp=float(b['price']['amount'])==100+exp+9 and b['price']['currency']=='USD'
            cl='ok' if (b['date']==str(d) and okp and b['amount']=='10' and b['ticker']=='XYZ') else 'WRONG-ENTRY'
    stats[cl+'/'+kind]+=1; ex.setdefault(cl,((dep,offs,kind),o))
print(dict(stats))
for k,(m,o) in ex.items():
    if k.isupper() or 'UNEXP' in k: print(k,m,json.dumps(o)[:300])
