#!/usr/bin/env python3
"""prototype of relational oracles: C09 independence, C12 extension, C10 split twin"""
import sys, json, itertools, subprocess, collections, datetime
from fractions import Fraction as Fr
binary=sys.argv[1]; N=int(sys.argv[2])
EPS=Fr(1,10**9)
def run(texts):
    out=subprocess.run([binary,'ledger'],input='\n'.join(json.dumps({"text":t}) for t in texts)+'\n',capture_output=True,text=True).stdout.splitlines()
    assert len(out)==len(texts); return [json.loads(o) for o in out]
def disp(o,ticker=None):
    if 'disposals' not in o: return 'ERR'
    return [(d['date'],d['ticker'],Fr(d['qty']),Fr(d['gross']),Fr(d['net']),[(l[0],l[2],Fr(l[1]),Fr(l[3]),Fr(l[4])) for l in d['legs']]) for d in o['disposals'] if ticker in (None,d['ticker'])]
def hold(o,ticker=None): return [(h[0],Fr(h[1]),Fr(h[2])) for h in o['holdings'] if ticker in (None,h[0]) and Fr(h[1])>EPS]
def close(a,b):
    if type(a)!=type(b): return False
    if isinstance(a,Fr): return abs(a-b)<=EPS
    if isinstance(a,(tuple,list)): return len(a)==len(b) and all(close(x,y) for x,y in zip(a,b))
    return a==b
base=datetime.date(2024,3,5)
def ev(sec):
    E=[]
    for i,o in enumerate((-40,0,1,10)):
        d=base+datetime.timedelta(days=o)
        E.append(f"{d} BUY {sec} 10 @ {10+i} FEES 1")
        E.append(f"{d} SELL {sec} 4 @ {20+i} FEES 2"); E.append(f"{d} SELL {sec} 10 @ {20+i}")
    for o in (-20,5):
        d=base+datetime.timedelta(days=o)
        E.append(f"{d} SPLIT {sec} RATIO 2"); E.append(f"{d} CAPRETURN {sec} 10 TOTAL 5"); E.append(f"{d} ACCUMULATION {sec} 10 TOTAL 7")
    return E
def okc(c):
    seen=set()
    for l in c:
        k=tuple(l.split()[:3])
        if k in seen: return False
        seen.add(k)
    return True
# ---- C09
EA,EB=ev('AAA'),ev('BBB'); allE=EA+EB
ledg=[c for n in range(2,N+1) for c in itertools.combinations(allE,n) if okc(c) and any('AAA' in l for l in c) and any('BBB' in l for l in c)]
texts=[]
for c in ledg:
    texts+=['\n'.join(c),'\n'.join(reversed(c)),'\n'.join(l for l in c if 'AAA' in l),'\n'.join(l for l in c if 'BBB' in l)]
res=run(texts); st=collections.Counter(); ex={}
for i,c in enumerate(ledg):
    full,rev,a,b=res[4*i:4*i+4]
    if 'disposals' not in full:
        cl='ok-err' if ('disposals' not in a or 'disposals' not in b) else 'FULL-ERR-BUT-PARTS-OK'
    elif 'disposals' not in a or 'disposals' not in b: cl='PART-ERR-BUT-FULL-OK'
    else:
        cl='ok'
        if not close(disp(full,'AAA'),disp(a)) or not close(disp(full,'BBB'),disp(b)) or not close(hold(full,'AAA'),hold(a)) or not close(hold(full,'BBB'),hold(b)): cl='PROJECTION-DIFFERS'
        elif not close(disp(full),disp(rev)) or not close(hold(full),hold(rev)): cl='REVERSED-DIFFERS'
    st[cl]+=1; ex.setdefault(cl,c)
print('C09',len(ledg),'ledgers',dict(st))
for k,c in ex.items():
    if k[0].isupper(): print('  ',k,'\n     '+'\n     '.join(c))
# ---- C12
E1=[l for l in ev('AAA') if 'CAPRETURN' not in l and 'ACCUM' not in l]
pref=[c for n in range(1,min(N,4)+1) for c in itertools.combinations(E1,n) if okc(c)]
pres=run(['\n'.join(c) for c in pref])
jobs=[]; 
for c,o in zip(pref,pres):
    if 'disposals' not in o: continue
    T=max(datetime.date.fromisoformat(l.split()[0]) for l in c)
    S=[]
    for off in (31,32,45):
        d=T+datetime.timedelta(days=off)
        S+= [f"{d} BUY AAA 7 @ 3",f"{d} SELL AAA 3 @ 30",f"{d} SELL AAA 99 @ 30",f"{d} SPLIT AAA RATIO 2",f"{d} UNSPLIT AAA RATIO 2",f"{d} DIVIDEND AAA TOTAL 5"]
    for n in (1,2):
        for s in itertools.combinations(S,n):
            if okc(s): jobs.append((c,o,s))
sres=run(['\n'.join(c+s) for c,o,s in jobs]); st=collections.Counter(); ex={}
for (c,o,s),r in zip(jobs,sres):
    if 'disposals' not in r:
        sdates={l.split()[0] for l in s}
        cl='ok-suffix-rejected' if any(d in r.get('err','') for d in sdates) else 'REJECTED-NAMING-PREFIX'
    else:
        pd={(d[0],d[1]):d for d in disp(o)}; rd={(d[0],d[1]):d for d in disp(r)}
        cl='ok' if all(k in rd and close(rd[k],v) for k,v in pd.items()) else 'EARLIER-DISPOSAL-CHANGED'
    st[cl]+=1; ex.setdefault(cl,(c,s,r))
print('C12',len(jobs),'extensions',dict(st))
for k,(c,s,r) in ex.items():
    if k[0].isupper(): print('  ',k,c,s,json.dumps(r)[:300])
