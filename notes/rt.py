#!/usr/bin/env python3
import sys, json, itertools, subprocess, collections, re, glob, datetime
binary=sys.argv[1]
codes=sorted({c.upper() for p in glob.glob('/repo/crates/cgt-money/resources/rates/*.xml') for c in re.findall(r'<currencyCode>\s*([A-Za-z]{3})\s*</currencyCode>',open(p).read())})
print(len(codes),'currency codes',file=sys.stderr)
DEC=['0','1','1.10','0.0000000000000000000000000001','123456789012345678','79228162514264337593543950335','0.5','0.0000001','100.000','7.922816251426433759354395033']
TICK=['A','7','Z9Z9','BUY','TAX','USD','FEES','ABCDEFGHIJKLMNOPQRSTUVWXYZ0123']
DATES=['0001-01-01','1899-12-31','1900-04-05','1900-04-06','2024-02-29','2100-04-05','2101-04-06','9999-12-31','2024-12-31','2000-01-01']
def money(a,c): return {"amount":a,"currency":c}
def mk(kind,date='2024-01-15',tk='AAPL',q='100',a='150',c='GBP',fa='0',fc='GBP'):
    t={"date":date,"ticker":tk,"action":kind}
    if kind in('BUY','SELL'): t.update(amount=q,price=money(a,c),fees=money(fa,fc))
    elif kind=='DIVIDEND': t.update(total_value=money(a,c),tax_paid=money(fa,fc))
    elif kind=='ACCUMULATION': t.update(amount=q,total_value=money(a,c),tax_paid=money(fa,fc))
    elif kind=='CAPRETURN': t.update(amount=q,total_value=money(a,c),fees=money(fa,fc))
    else: t.update(ratio=q)
    return t
KINDS=['BUY','SELL','DIVIDEND','ACCUMULATION','CAPRETURN','SPLIT','UNSPLIT']
cases=[]
for k in KINDS:
    dims={'date':DATES,'tk':TICK,'q':[d for d in DEC if d!='0'],'a':DEC,'c':codes,'fa':DEC,'fc':codes[:8]+['GBP','USD']}
    default={}
    names=list(dims)
    # single and double departures
    for n1 in names:
        for v1 in dims[n1]:
            cases.append(mk(k,**{n1:v1}))
    for n1,n2 in itertools.combinations(names,2):
        for v1 in dims[n1][:10]:
            for v2 in dims[n2][:10]:
                cases.append(mk(k,**{n1:v1,n2:v2}))
print(len(cases),'cases',file=sys.stderr)
out=subprocess.run([binary,'roundtrip'],input='\n'.join(json.dumps([c]) for c in cases)+'\n',capture_output=True,text=True).stdout.splitlines()
stats=collections.Counter(); ex={}
def norm(t):
    t=json.loads(json.dumps(t))
    for f in ('fees','tax_paid'):
        if f in t and float(t[f]['amount'])==0: t[f]={"amount":"0","currency":"GBP"}
    return t
for c,o in zip(cases,out):
    o=json.loads(o)
    if 'json_err' in o: cl='input-rejected'
    elif 'reparse_err' in o: cl='DSL-REPARSE-ERR'
    elif 'json_reparse_err' in o: cl='JSON-REPARSE-ERR'
    else:
        cl='ok'
        if not o['json_eq']: cl='JSON-NEQ'
        elif not o['idem']: cl='NOT-IDEMPOTENT'
        elif not o['dsl_eq']:
            a=[norm(x) for x in o['orig']]; b=[norm(x) for x in o['back']]
            # compare numerically
            def num(t):
                t=json.loads(json.dumps(t))
                def f(x):
                    from fractions import Fraction
                    return str(Fraction(x))
                for k in list(t):
                    if k in('amount','ratio'): t[k]=f(t[k])
                    elif isinstance(t[k],dict): t[k]={'amount':f(t[k]['amount']),'currency':t[k]['currency']}
                return t
            cl='ok-zero-label' if [num(x) for x in a]==[num(x) for x in b] else 'DSL-NEQ'
    stats[cl]+=1; ex.setdefault(cl,(c,o))
print(dict(stats))
for k,(c,o) in ex.items():
    if k.isupper() or k=='input-rejected': print(k, json.dumps(c)[:200], json.dumps(o)[:300])
