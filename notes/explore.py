#!/usr/bin/env python3
import sys, json, itertools, subprocess, datetime, collections
sys.path.insert(0,'/root/scratch/proto')
from refmodel import parse, evaluate, Uncovered
from fractions import Fraction as Fr
N=int(sys.argv[1]); binary=sys.argv[2]; ratios=sys.argv[3].split(',') if len(sys.argv)>3 else ['2']
base=datetime.date(2024,3,5)
offs=[-40,0,1,2,30,31,32]
events=[]
for i,o in enumerate(offs):
    d=base+datetime.timedelta(days=o)
    for q in ('3','10'):
        events.append((d,'B',f"{d} BUY X {q} @ {10+i}" + (" FEES 1" if i%2==0 else "")))
    for q in ('0.5','2','5','10'):
        events.append((d,'S',f"{d} SELL X {q} @ {20+i}" + (" FEES 2" if i%2==1 else "")))
for o in (0,1,2,30,31):
    d=base+datetime.timedelta(days=o)
    for r in ratios:
        events.append((d,'K',f"{d} SPLIT X RATIO {r}"))
        events.append((d,'K',f"{d} UNSPLIT X RATIO {r}"))
def ok(combo):
    seen=set(); 
    for d,k,_ in combo:
        if (d,k) in seen: return False
        seen.add((d,k))
    # no split on same date as trade
    days_trade={d for d,k,_ in combo if k in 'BS'}; days_split={d for d,k,_ in combo if k=='K'}
    return not (days_trade & days_split)
ledgers=[]
for n in range(1,N+1):
    for combo in itertools.combinations(events,n):
        if ok(combo): ledgers.append(';'.join(l for _,_,l in combo))
print(len(events),'events',len(ledgers),'ledgers',file=sys.stderr)
p=subprocess.run([binary],input='\n'.join(ledgers)+'\n',capture_output=True,text=True)
outs=p.stdout.splitlines(); assert len(outs)==len(ledgers),(len(outs),len(ledgers),p.stderr[-500:])
EPS=Fr(1,10**9)
stats=collections.Counter(); examples={}
for led,o in zip(ledgers,outs):
    o=json.loads(o); txs=parse(led.replace(';','\n'))
    try: disp,hold=evaluate(txs); cov=True
    except Uncovered as e: cov=False
    if 'panic' in o: cls='panic'
    elif 'err' in o: cls='ok-reject' if not cov else 'REFUSED-COVERED'
    elif not cov: cls='ACCEPTED-UNCOVERED'
    else:
        cls='ok'
        got={ (datetime.date.fromisoformat(d['date']),d['ticker']):d for d in o['disposals']}
        if set(got)!=set(disp): cls='DISPOSAL-SET'
        else:
            for k,d in got.items():
                gl=collections.defaultdict(lambda:[Fr(0),Fr(0),Fr(0)])
                for rule,q,acq,c,g in d['legs']:
                    a=gl[(rule,acq)]; a[0]+=Fr(q);a[1]+=Fr(c);a[2]+=Fr(g)
                rl=collections.defaultdict(lambda:[Fr(0),Fr(0),Fr(0)])
                for m in disp[k]['legs']:
                    a=rl[(m['rule'],str(m['acquisition_date'] or ''))]; a[0]+=m['quantity'];a[1]+=m['allowable_cost'];a[2]+=m['gain_or_loss']
                if set(gl)!=set(rl): cls='LEG-RULES'; break
                if any(abs(gl[x][0]-rl[x][0])>EPS for x in gl): cls='LEG-QTY'; break
                if any(abs(gl[x][1]-rl[x][1])>EPS or abs(gl[x][2]-rl[x][2])>EPS for x in gl): cls='LEG-COST'; break
            if cls=='ok':
                gh={h[0]:(Fr(h[1]),Fr(h[2])) for h in o['holdings']}
                for tk,(Q,K) in hold.items():
                    q,k=gh.get(tk,(Fr(0),Fr(0)))
                    if abs(q-Q)>EPS or abs(k-K)>EPS: cls='HOLDING'
    stats[cls]+=1
    if cls.isupper() and cls not in examples: examples[cls]=(led,o)
print(dict(stats))
for c,(l,o) in examples.items(): print(c,'\n  ',l.replace(';','\n   '),'\n  ',json.dumps(o)[:600])
