#!/usr/bin/env python3
"""Prototype of reference model R (exact rationals) — scratch only."""
import sys, re, json, glob, os, datetime
from fractions import Fraction as Fr
from collections import defaultdict

RATES={}
def load_rates():
    for p in glob.glob('/repo/crates/cgt-money/resources/rates/*.xml'):
        y,m=os.path.basename(p)[:-4].split('-'); y=int(y); m=int(m)
        s=open(p).read()
        for code,rate in re.findall(r'<currencyCode>\s*([A-Za-z]{3})\s*</currencyCode>.*?<rateNew>\s*([0-9.]+)\s*</rateNew>', s, re.S):
            RATES[(code.upper(),y,m)]=Fr(rate)

def parse(text):
    txs=[]
    for line in re.split(r'\r\n|\n|\r', text):
        line=line.split('#',1)[0].strip()
        if not line: continue
        t=line.split()
        d=datetime.date.fromisoformat(t[0]); kind=t[1].upper(); tk=t[2].upper(); rest=t[3:]
        def money(i):
            amt=Fr(rest[i]); cur='GBP'; i+=1
            if i<len(rest) and re.fullmatch(r'[A-Za-z]{3}',rest[i]) and rest[i].upper() not in('TAX','BUY'):
                cur=rest[i].upper(); i+=1
            if cur!='GBP': amt=amt/RATES[(cur,d.year,d.month)]
            return amt,i
        tx={'date':d,'kind':kind,'ticker':tk}
        if kind in('BUY','SELL'):
            tx['qty']=Fr(rest[0]); assert rest[1]=='@'
            tx['price'],i=money(2); tx['fees']=Fr(0)
            if i<len(rest): assert rest[i].upper()=='FEES'; tx['fees'],i=money(i+1)
        elif kind in('SPLIT','UNSPLIT'):
            assert rest[0].upper()=='RATIO'; tx['ratio']=Fr(rest[1])
        elif kind=='DIVIDEND':
            assert rest[0].upper()=='TOTAL'; tx['total'],i=money(1); tx['tax']=Fr(0)
            if i<len(rest): tx['tax'],i=money(i+1)
        elif kind in('CAPRETURN','ACCUMULATION'):
            tx['qty']=Fr(rest[0]); tx['total'],i=money(2); tx['fees']=Fr(0)
            if i<len(rest): tx['fees'],i=money(i+1)
        else: raise ValueError(line)
        txs.append(tx)
    return txs

class Uncovered(Exception): pass

def evaluate(txs):
    """returns (disposals: {(date,ticker): {...legs}}, holdings {ticker:(Q,K)})"""
    out={}; holdings={}
    for tk in sorted({t['ticker'] for t in txs}):
        ev=[t for t in txs if t['ticker']==tk]
        days=sorted({t['date'] for t in ev})
        B=defaultdict(Fr);C=defaultdict(Fr);S=defaultdict(Fr);G=defaultdict(Fr);F=defaultdict(Fr);ratio=defaultdict(lambda:Fr(1))
        for t in ev:
            d=t['date']
            if t['kind']=='BUY': B[d]+=t['qty']; C[d]+=t['qty']*t['price']+t['fees']
            elif t['kind']=='SELL': S[d]+=t['qty']; G[d]+=t['qty']*t['price']; F[d]+=t['fees']
            elif t['kind']=='SPLIT': ratio[d]*=t['ratio']
            elif t['kind']=='UNSPLIT': ratio[d]/=t['ratio']
        def u(d,e):
            r=Fr(1)
            for t in days:
                if d<=t<e: r*=ratio[t]
            return r
        # coverage
        pos=Fr(0)
        for d in days:
            pos+=B[d]-S[d]
            if pos<0: raise Uncovered((tk,d))
            pos*=ratio[d]
        sd={d:min(S[d],B[d]) for d in days}
        claimed=defaultdict(Fr); legs=defaultdict(list); rem={}
        for d in days:
            if S[d]==0: continue
            r=S[d]-sd[d]
            if sd[d]>0: legs[d].append(('SameDay',sd[d],d,sd[d]*C[d]/B[d]))
            for e in days:
                if r<=0: break
                if not (d<e and (e-d).days<=30 and B[e]>0): continue
                free=B[e]-sd[e]-claimed[e]
                if free<=0: continue
                f=u(d,e); m=min(r,free/f)
                legs[d].append(('BedAndBreakfast',m,e,m*f*C[e]/B[e])); claimed[e]+=m*f; r-=m
            rem[d]=r
        Q=Fr(0);K=Fr(0)
        for d in days:
            r=rem.get(d,Fr(0))
            if r>0:
                cost=r*K/Q; legs[d].append(('Section104',r,None,cost)); Q-=r; K-=cost
            add=B[d]-sd[d]-claimed[d]
            if add>0: Q+=add; K+=add*C[d]/B[d]
            Q*=ratio[d]
        for d in days:
            if S[d]>0:
                L=[]
                for rule,q,acq,cost in legs[d]:
                    gross=q*G[d]/S[d]; net=gross-F[d]*q/S[d]
                    L.append({'rule':rule,'quantity':q,'acquisition_date':acq,'allowable_cost':cost,'gain_or_loss':net-cost})
                out[(d,tk)]={'quantity':S[d],'gross':G[d],'net':G[d]-F[d],'legs':L}
        if B: holdings[tk]=(Q,K)
    return out,holdings

def r2(x):  # half-even to 2dp like JSON goldens
    from decimal import Decimal, ROUND_HALF_EVEN, getcontext
    getcontext().prec=60
    return (Decimal(x.numerator)/Decimal(x.denominator)).quantize(Decimal('0.01'),rounding=ROUND_HALF_EVEN)

if __name__=='__main__':
    load_rates()
    from decimal import Decimal
    ok=bad=skip=0
    for p in sorted(glob.glob('/repo/tests/inputs/*.cgt')):
        name=os.path.basename(p)[:-4]
        txs=parse(open(p).read())
        if any(t['kind'] in('CAPRETURN','ACCUMULATION') for t in txs): skip+=1; continue
        gold=json.load(open(f'/repo/tests/json/{name}.json'))
        try: disp,hold=evaluate(txs)
        except Uncovered as e: print(name,'UNCOVERED',e); bad+=1; continue
        g={}
        for y in gold['tax_years']:
            for d in y['disposals']:
                g[(datetime.date.fromisoformat(d['date']),d['ticker'])]=d
        msgs=[]
        if set(g)!=set(disp): msgs.append(f'disposal keys differ {set(g)^set(disp)}')
        for k in set(g)&set(disp):
            gl=sorted([(m['rule'],m.get('acquisition_date') or '',Decimal(m['quantity']),Decimal(m['allowable_cost']),Decimal(m['gain_or_loss'])) for m in g[k]['matches']])
            rl=sorted([(m['rule'],str(m['acquisition_date'] or ''),Decimal(str(float(m['quantity']))) if False else m['quantity'],r2(m['allowable_cost']),r2(m['gain_or_loss'])) for m in disp[k]['legs']])
            # merge golden legs with same rule/date
            def merge(L):
                D={}
                for rule,acq,q,c,gn in L:
                    a=D.setdefault((rule,acq),[0,0,0]); a[0]+=q; a[1]+=c; a[2]+=gn
                return D
            gm=merge(gl); rm=merge(rl)
            if set(gm)!=set(rm): msgs.append(f'{k}: leg keys {sorted(gm)} vs {sorted(rm)}'); continue
            for kk in gm:
                gq,gc,gg=gm[kk]; rq,rc,rg=rm[kk]
                if abs(Fr(gq)-Fr(rq))>Fr(1,10**9) or abs(Fr(gc)-Fr(rc))>Fr(2,100) or abs(Fr(gg)-Fr(rg))>Fr(2,100):
                    msgs.append(f'{k} {kk}: gold q={gq} c={gc} g={gg}  R q={float(rq)} c={rc} g={rg}')
        gh={h['ticker']:(Decimal(h['quantity']),Decimal(h['total_cost'])) for h in gold['holdings']}
        for tk,(Q,K) in hold.items():
            if tk not in gh: msgs.append(f'holding {tk} missing in gold'); continue
            if abs(Fr(gh[tk][0])-Q)>Fr(1,10**9) or abs(Fr(gh[tk][1])-K)>Fr(2,100): msgs.append(f'holding {tk}: gold {gh[tk]} R {float(Q)},{float(K)}')
        if msgs: bad+=1; print('MISMATCH',name); [print('   ',m) for m in msgs]
        else: ok+=1
    print('ok',ok,'bad',bad,'skipped(capreturn/accum)',skip)
