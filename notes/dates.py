#!/usr/bin/env python3
import sys, json, subprocess, datetime, collections
binary=sys.argv[1]
d=datetime.date(1899,12,30); end=datetime.date(2101,4,8)
texts=[];ds=[]
while d<=end:
    texts.append({"text":f"{d-datetime.timedelta(days=1)} BUY X 1 @ 1\n{d} SELL X 1 @ 2"}); ds.append(d); d+=datetime.timedelta(days=1)
out=subprocess.run([binary,'ledger'],input='\n'.join(json.dumps(t) for t in texts)+'\n',capture_output=True,text=True).stdout.splitlines()
st=collections.Counter(); ex={}
for d,o in zip(ds,out):
    o=json.loads(o)
    y=d.year if (d.month,d.day)>=(4,6) else d.year-1
    if 1900<=y<=2100:
        cl='ok' if ('years' in o and [x['year'] for x in o['years']]==[y] and o['disposals'][0]['year']==y) else 'WRONG-YEAR'
    else:
        cl='ok-err' if 'err' in o else 'OUT-OF-RANGE-ACCEPTED'
    st[cl]+=1; ex.setdefault(cl,(str(d),o))
print(len(ds),'dates',dict(st))
for k,v in ex.items():
    if k[0].isupper(): print(k,v)
# year filter slices on a 3-year ledger
led="2022-01-01 BUY X 100 @ 1\n2023-04-05 SELL X 1 @ 2\n2023-04-06 SELL X 2 @ 3\n2024-04-05 SELL X 3 @ 4\n2024-04-06 SELL X 4 @ 5\n2023-05-01 DIVIDEND X TOTAL 9 TAX 1\n2021-05-01 DIVIDEND X TOTAL 7"
reqs=[{"text":led}]+[{"text":led,"year":y} for y in (1899,1900,2020,2021,2022,2023,2024,2025,2100,2101,2147483647,-5)]
out=[json.loads(l) for l in subprocess.run([binary,'ledger'],input='\n'.join(json.dumps(t) for t in reqs)+'\n',capture_output=True,text=True).stdout.splitlines()]
full=out[0]
for r,o in zip(reqs[1:],out[1:]):
    y=r['year']
    if 'err' in o or 'panic' in o: print(y,'->',str(o)[:90]); continue
    want=[x for x in full['years'] if x['year']==y]; wd=[d for d in full['disposals'] if d['year']==y]
    same=(o['disposals']==wd) and (o['holdings']==full['holdings']) and (o['years']==want or (not want and o['years'][0]['count']==0))
    print(y,'-> slice equal' if same else '-> SLICE DIFFERS', o['years'])
