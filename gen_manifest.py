#!/usr/bin/env python3
"""Generates MANIFEST.json from the table below (kept in one place so that it stays valid)."""
import json
CHECKS = {
 "C01": ("ledger graph (all multisets of events up to N over match1 alphabets + every calendar position of the 30-day window + competing-disposal shapes) executed on the real calculate(), compared leg by leg with reference model R in exact rationals",
         "bounded exhaustive exploration of the ledger graph on the real code vs exact-rational reference model"),
 "C02": ("same ledger graphs (+ ratios 3 and 2.5, two securities); three conservation laws evaluated from the input lines and the report in exact rationals on every accepted ledger",
         "bounded exhaustive exploration of the ledger graph on the real code; conservation invariants on every state"),
 "C03": ("`events` ledger graphs (fees, splits, CAPRETURN/ACCUMULATION/DIVIDEND, USD/EUR variant, two securities): cost conservation identity per security in exact rationals on every accepted ledger",
         "bounded exhaustive exploration of the ledger graph on the real code; cost-conservation invariant on every state"),
 "C04": ("`years` ledger graph (two fills per day, FX, zero results, dividends, three 5/6 April boundaries) x distinct per-year exemptions x removal of each year's exemption; all report identities recomputed from the input lines; configuration-file menu through the real CLI",
         "bounded exhaustive exploration of the ledger graph x configuration menu on the real code; arithmetic identities recomputed from input lines"),
 "C05": ("ledger graphs match1 and oversell (duplicate rows, forward-matched companions, oversell after split/unsplit); acceptance compared with the exact coverage predicate on every ledger; refusals must name ticker and date",
         "bounded exhaustive exploration of the ledger graph on the real code vs exact coverage predicate"),
 "C06": ("all n! line permutations of every base ledger of four graphs, two-fill splitting in all permutations, and all 2^(n-1) file compositions x final-newline through the real CLI; reports compared with the canonical order at three levels",
         "exhaustive enumeration of all line orders / file compositions / fill splittings of bounded ledgers on the real code; equality with the canonical order"),
 "C07": ("every calendar date 1899-12-31..2101-04-07 against an independent 6-April rule; `years` graph x every year filter (slice equality, holdings); cgt-tool report --year and MCP explain_matching for every 5/6 April 1900..2101",
         "exhaustive date sweep + bounded exhaustive exploration of ledger x year-filter pairs on the real code"),
 "C08": ("every (bundled month, ISO currency) cell against an independent reader of the XML; `fxpairs` ledger graphs vs pre-converted GBP twins; all subsets x both mtime orders of an 8-file rates-folder menu vs reference overlay; --fx-folder and MCP get_fx_rate",
         "exhaustive enumeration of the rate table, of bounded multi-currency ledgers and of rate-folder configurations on the real code"),
 "C09": ("two-security ledger graph: combined run vs each security alone (disposals, leg lists, holdings, acceptance, totals adding up), reversed interleaving; all case spellings of a ticker in DSL and JSON input",
         "bounded exhaustive exploration of the two-security ledger graph on the real code; projection equality"),
 "C10": ("every ledger with SPLIT/UNSPLIT vs its exactly-representable rescaled twin; SPLIT r;UNSPLIT r inserted on every adjacent free date pair of every ledger",
         "bounded exhaustive exploration of the ledger graph on the real code; differential twin equality"),
 "C11": ("every ledger vs the ledger minus each CAPRETURN/ACCUMULATION/DIVIDEND event: exact expenditure shift, later acquisitions untouched, cancelling pairs, no negative cost, refusal brackets",
         "bounded exhaustive exploration of the ledger graph on the real code; with/without-event differential"),
 "C13": ("deviation-bounded exploration of DSL texts: every set of <= k lexical deviations at distinct sites of 23 canonical texts, and every single-token corruption (garbage and every grammar token in the wrong place) under LF/CRLF/CR, against an independent recogniser of the README grammar; cgt-tool parse on deviated files",
         "deviation-bounded exhaustive exploration of input texts on the real parser vs reference recogniser"),
 "C14": ("all single- and two-field departures over extreme value alphabets for the seven kinds, every date 0000-01-01..9999-12-31, every ISO code, every `years` ledger: DSL and JSON round trips, idempotence, report equality; MCP/CLI front-ends on a subset",
         "exhaustive enumeration of bounded value alphabets on the real writer/parser/serialiser; round-trip identity"),
 "C15": ("all token sequences <= L over a 30-token alphabet and all ordered ledgers <= k events over a 7-magnitude alphabet at 5 calendar positions through parse->validate->calculate->format under catch_unwind in watchdog-guarded child processes; CLI fault menu (one process per cell); validator truth table; converter row sequences and long exports (5..100 rows, four row orders, a comment/cancel row at every position)",
         "exhaustive enumeration of bounded input sequences and of a fault menu on the real code; no panic/abort/hang, atomic failure"),
 "C16": ("iteration-order explorer over the cfg-gated verif_map hook: every schedule of map-traversal permutations with <= d non-identity choices on three many-security ledgers; byte equality of text/JSON/full-precision report (and PDF text) with the identity execution; stated orders; repeated CLI processes as an additional sample; every ordered pair of 11 MCP requests in a fresh server vs a fresh process",
         "deviation-bounded exhaustive exploration of hash-map iteration orders (controlled scheduler over a cfg-gated hook) on the real code"),
 "C17": ("half-penny lattice of gains/proceeds/costs/fees/average costs x magnitudes x quantities: every figure of the plain-text report, the JSON report, the compiled PDF's text runs (hook verif_text_runs) and MCP calculate_report/explain_matching parsed back and compared with the full-precision report; lists of years/disposals/legs/holdings compared",
         "exhaustive enumeration of a value lattice on the real formatters (incl. the real Typst compile via a cfg-gated hook) vs exact rounding"),
 "C18": ("every multiset of <= k rows over a 24-row Schwab alphabet x all row orders x all date-disjoint cuts, converted by the real converter and compared with a reference row->line map; output parsed by an independent recogniser and by the tool; CLI convert|report",
         "exhaustive enumeration of bounded row sequences x all row orders x all chunk cuts on the real converter vs reference map"),
 "C19": ("all 4096 subsets of vest-entry offsets -9..+2 x 5 entry-kind patterns x symbol case x 5 deposit dates, converted by the real converter and compared with a five-line reference look-up",
         "exhaustive enumeration of award-file shapes on the real converter vs reference look-up"),
 "C20": ("every sequence of <= k requests over an 18-request alphabet x every await/pipeline pattern, each in a fresh real `cgt-tool mcp` process: one response per id, body equal to the solo-session answer (itself equal across six fresh servers), alive until EOF, exit 0; every fixture ledger: calculate_report = CLI JSON and explain_matching explains every disposal (all-years and one-year reports)",
         "exhaustive enumeration of bounded request sequences x externally controllable schedules on the real server process; differential statelessness oracle"),
 "C12": ("edges prefix -> prefix+suffix: every accepted prefix x every continuation of <= k events dated T+31/T+32/T+45, and growth by 1..40 lines in two layouts; earlier disposals and year totals unchanged, refusals caused by appended dates only",
         "exhaustive enumeration of prefix/continuation edges of the bounded ledger graph on the real code"),
}
ALL = ["C%02d" % i for i in range(1, 21)]
import subprocess
HOOK_COMMITS = [l.split()[0] for l in subprocess.check_output(["git","-C","/repo","log","--format=%h %s"]).decode().splitlines() if l.split(" ",1)[1].startswith("verif hook")]
m = {
 "version": 1,
 "setup_cmd": "./setup.sh",
 "hooks": {
   "guard": "cargo feature `verif-hooks` (off by default) on cgt-core and cgt-formatter-pdf",
   "enable": "the harness crates under /verif/harness enable the feature on their path dependencies (features = [\"verif-hooks\"]); nothing in /repo enables it",
   "baseline_off_cmd": "cd /repo && cargo test --workspace --no-fail-fast --offline",
   "source_commits": HOOK_COMMITS,
   "add_only": True,
 },
 "engines": [
   {"name": "mc-front", "path": "harness/mc-front", "serves_properties": ["C16", "C17"], "kind_free_text": "engines that need the verif-hooks feature: iteration-order explorer (schedules of map-traversal permutations) and PDF text-run extraction"},
   {"name": "mc-core", "path": "harness/mc-core", "serves_properties": sorted(c for c in CHECKS if c not in ("C16","C17")), "kind_free_text": "hand-rolled rayon-parallel explicit-state explorer: tree of insertions into a canonical multiset of events, real cgt-core executed at every state, exact-rational reference model (harness/mcx)"},
 ],
 "checks": [],
 "not_applicable": [],
 "notes": "exit 0 = held on everything explored (KNOWN-FINDING lines for open findings listed in known_findings.json); exit 1 = VIOLATION; exit 2 = machinery failure (build error, vacuity assertion, reference-model self-validation) and is never a verdict.",
}
for pid in ALL:
    if pid in CHECKS:
        text, tech = CHECKS[pid]
        m["checks"].append({
          "property_id": pid,
          "quick_cmd": f"./check {pid} quick",
          "thorough_cmd": f"./check {pid} thorough",
          "evidence_file": f"/verif/evidence/{pid}.json",
          "replay_cmd_template": f"./check {pid} --replay {{path}}",
          "engine": "mc-front" if pid in ("C16","C17") else "mc-core",
          "level_claimed": {"category": "model_checking", "text": text, "design_ref": f"DESIGN.md §6 {pid}"},
          "level_note": "bounded: only the alphabets and event counts recorded in the evidence file are covered; decimal equality is |diff| <= 1e-9; reference model validated against the repository's golden JSON fixtures on every run",
          "technique": tech,
        })
    else:
        m["not_applicable"].append({"property_id": pid, "reason": "engine designed (DESIGN.md §6) but not yet built/registered at this commit; no claim is made"})

json.dump(m, open("/verif/MANIFEST.json", "w"), indent=1)
print("checks:", len(m["checks"]), "not_applicable:", len(m["not_applicable"]))
